#!/bin/sh
# Offline setup: nothing to build; byte-compile the harness and run its self-test.
cd "$(dirname "$0")"
/venv/bin/python -m compileall -q mc >/dev/null 2>&1 || true
exec ./check SELFTEST
