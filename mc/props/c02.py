"""C02 - the mailbox server (or a third participant) cannot forge, alter, re-label, replay or reflect."""
import json
import multiprocessing as mp

from .w1common import CODE, mk, msgs, run_scenarios, replay as _replay, W1_ASSUMPTIONS, seed
from ..env.mailbox import MailboxWorld
from ..core.explore import NPROC

LEVEL = "model_checking"
VA = {"who": "a"}
VB = {"who": "b"}
SENT = ([b"a-zero", b"a-one"], [b"b-zero"])
THIRD_SIDE = "ffffffffff"


def base_cfg(mode="delegate", **kw):
    d = dict(clients=[dict(threads=[[("set_code", CODE)] + [("send", m) for m in SENT[0]]], mode=mode, versions=VA),
                      dict(threads=[[("set_code", CODE)] + [("send", m) for m in SENT[1]]], mode=mode, versions=VB)],
             explored=("down", "up", "api", "connect"))
    d.update(kw)
    return d


def other_pw_pake():
    from spake2 import SPAKE2_Symmetric
    from mc.core.entropy import Stream
    sp = SPAKE2_Symmetric(b"4-other-password", idSymmetric=b"appid", entropy_f=Stream(0, "adversary").read)
    return json.dumps({"pake_v1": sp.start().hex()}).encode().hex()


_OPP = None


def opp():
    global _OPP
    if _OPP is None:
        _OPP = other_pw_pake()
    return _OPP


PHASES = ["pake", "version", "0", "1", "2", "7", "dilate-0", "zz", ""]


def ops_for(m, victim_side, peer_side, own_pake_hex, tier, sd):
    """all single tamper operations applicable to message m (as delivered to the victim).
    Each op is a JSON-able tuple; apply_op() interprets it."""
    body = bytes.fromhex(m["body"])
    ops = []
    for i in range(len(body)):
        bits = range(8) if tier != "quick" else [(sd + i) % 8]
        for b in bits:
            ops.append(("flip", i, b))
    for L in sorted(set([0, 1, 23, 24, 25, 39, 40, max(0, len(body) - 1)])):
        if L < len(body):
            ops.append(("trunc", L))
    ops.append(("extend", 1))
    ops.append(("extend", 16))
    for q in PHASES:
        if q != m["phase"]:
            ops.append(("phase", q, "instead"))
            ops.append(("phase", q, "also"))
    for s in (victim_side, peer_side, THIRD_SIDE):
        if s != m["side"]:
            ops.append(("side", s, "instead"))
            ops.append(("side", s, "also"))
            for q in ("version", "0", "1"):
                if q != m["phase"]:
                    ops.append(("side+phase", s, q, "also"))
    # labels that differ from an honest one only by non-ASCII characters (a lossy encoding would collapse them)
    for s in (victim_side + "\u00e9", peer_side + "\u00e9", "\u00e9" + peer_side):
        ops.append(("side", s, "instead"))
        ops.append(("side", s, "also"))
    if m["phase"].isdigit():
        for q in (m["phase"] + "\u0661", "\u0660" + m["phase"], m["phase"] + "\u00e9"):
            ops.append(("phase", q, "also"))
            ops.append(("phase", q, "instead"))
    for s in (peer_side, THIRD_SIDE):
        for q in ("version", "0", "1", "5", "dilate-0"):
            ops.append(("inject", s, q, "random"))
    for s in (peer_side, THIRD_SIDE):
        ops.append(("inject", s, "pake", "garbage"))
        ops.append(("inject", s, "pake", "own"))       # the victim's own PAKE reflected
        ops.append(("inject", s, "pake", "otherpw"))   # honest PAKE for another password
    ops.append(("drop",))
    ops.append(("dup",))
    return ops


def apply_op(op, m, own_pake_hex):
    """returns the list of messages to deliver instead of m"""
    m = dict(m)
    body = bytes.fromhex(m["body"])
    k = op[0]
    if k == "flip":
        b = bytearray(body)
        b[op[1]] ^= (1 << op[2])
        return [dict(m, body=bytes(b).hex())]
    if k == "trunc":
        return [dict(m, body=body[:op[1]].hex())]
    if k == "extend":
        return [dict(m, body=(body + b"\x00" * op[1]).hex())]
    if k == "phase":
        t = dict(m, phase=op[1])
        return [t] if op[2] == "instead" else [m, t]
    if k == "side":
        t = dict(m, side=op[1])
        return [t] if op[2] == "instead" else [m, t]
    if k == "side+phase":
        return [m, dict(m, side=op[1], phase=op[2])]
    if k == "inject":
        if op[3] == "random":
            nb = (b"\x5a" * 24 + b"injected-by-the-server" + b"\x00" * 16).hex()
        elif op[3] == "garbage":
            nb = json.dumps({"pake_v1": "53" + "ab" * 32}).encode().hex()
        elif op[3] == "own":
            nb = own_pake_hex
        else:
            nb = opp()
        return [dict(type="message", side=op[1], phase=op[2], body=nb, id="x"), m]
    if k == "drop":
        return []
    if k == "dup":
        return [m, dict(m)]
    raise ValueError(op)


def run_tampered(victim, pos, op, mode="delegate"):
    """default schedule; the pos-th `message` delivered to `victim` is replaced by apply_op(op)"""
    state = {"n": 0}

    def hook(w, c, msg):
        if msg.get("type") != "message" or c.ci != victim or msg.get("_t"):
            return msg
        i = state["n"]
        state["n"] += 1
        if i != pos:
            return msg
        own = w.__dict__.get("_own_pake", {}).get(c.ci)
        outs = apply_op(op, msg, own)
        for o in outs:
            o = dict(o, _t=1)
            w._deliver(c, o, record=False)
        return None

    def track(w, c, msg):
        # remember each client's own PAKE body (for the reflection op)
        if msg.get("type") == "message" and msg.get("phase") == "pake" and msg.get("side") == c.boss._side:
            w.__dict__.setdefault("_own_pake", {})[c.ci] = msg["body"]
        msg2 = hook(w, c, msg)
        if msg2 is not None:
            msg2 = dict(msg2)
            msg2.pop("_t", None)
        return msg2
    cfg = base_cfg(mode=mode, deliver_hook=track)
    w = MailboxWorld(cfg, seed())
    while True:
        en = w.enabled()
        if not en:
            break
        w.apply(en[0])
    return w


def accepted_manipulated(w, victim, orig, op):
    """a peer message that was delivered only in manipulated form (bits, length, phase or side label changed) must not be
    accepted: the plaintext of that phase must not reach the application"""
    c = w.clients[victim]
    if orig.get("side") == c.boss._side:
        return None            # an echo of the victim's own message: nothing to accept
    kind = op[0]
    changed = kind in ("flip", "trunc", "extend", "drop") or (kind in ("phase", "side") and op[2] == "instead")
    if not changed:
        return None
    ph = orig.get("phase")
    if ph == "version" and any(k == "versions" for k, _ in c.app.obs):
        return "peer's version message was delivered only as %r, yet the application got versions" % (op,)
    if ph.isdigit() and len(msgs(c.app)) > int(ph):
        return "peer's phase %s was delivered only as %r, yet the application received it" % (ph, op)
    return None


def judge(w, ref):
    out = []
    vers = [json.dumps(VA, sort_keys=True), json.dumps(VB, sort_keys=True)]
    for c in w.clients:
        peer = w.clients[1 - c.ci]
        got = msgs(c.app)
        if got != SENT[1 - c.ci][:len(got)]:
            out.append(dict(oracle="authentic-messages", sig="c%d" % c.ci,
                            msg="client %d delivered %r; the peer only ever sent %r" % (c.ci, got, SENT[1 - c.ci])))
        v = [x for k, x in c.app.obs if k == "versions"]
        if v and v != [vers[1 - c.ci]]:
            out.append(dict(oracle="authentic-versions", sig="c%d" % c.ci,
                            msg="client %d got versions %r, peer's are %r" % (c.ci, v, vers[1 - c.ci])))
        vf = [x for k, x in c.app.obs if k == "verifier"]
        if vf and vf != [ref["verifier"]]:
            out.append(dict(oracle="authentic-verifier", sig="c%d" % c.ci, msg="client %d reports a verifier for a key the peer does not hold" % c.ci))
        if len(vf) > 1:
            out.append(dict(oracle="authentic-verifier", sig="c%d:twice" % c.ci, msg="verifier twice"))
        cl = [x for k, x in c.app.obs if k == "closed"]
        if cl and cl[0] == "happy":
            out.append(dict(oracle="closes-with-error", sig="c%d" % c.ci, msg="client %d closed 'happy' by itself" % c.ci))
    return out


def _work(task):
    victim, pos, ops = task
    res = []
    for op in ops:
        w = run_tampered(victim, pos, op)
        vs = judge(w, _REF)
        am = accepted_manipulated(w, victim, _STREAM[victim][pos], op)
        if am:
            vs.append(dict(oracle="manipulated-accepted", sig="c%d" % victim, msg=am))
        effect = tuple(tuple(x for k, x in c.app.obs if k == "closed") for c in w.clients) + (
            tuple(len(msgs(c.app)) for c in w.clients),) + (tuple(e[0] for e in w.errors),)
        res.append((op, vs, effect))
    return victim, pos, res


_REF = None
_STREAM = None


def enumerate_tamper(chk):
    global _REF, _STREAM
    # reference (honest) run: learn the message stream per client
    stream = {0: [], 1: []}

    def rec(w, c, msg):
        if msg.get("type") == "message":
            stream[c.ci].append(dict(msg))
        return msg
    w = MailboxWorld(base_cfg(deliver_hook=rec), seed())
    while w.enabled():
        w.apply(w.enabled()[0])
    assert msgs(w.clients[0].app) == SENT[1] and msgs(w.clients[1].app) == SENT[0], "reference run incomplete"
    _REF = dict(verifier=[x for k, x in w.clients[0].app.obs if k == "verifier"][0])
    _STREAM = stream
    sides = [c.boss._side for c in w.clients]
    own_pake = {ci: [m["body"] for m in stream[ci] if m["phase"] == "pake" and m["side"] == sides[ci]][0] for ci in (0, 1)}
    tasks = []
    for victim in (0, 1):
        for pos, m in enumerate(stream[victim]):
            ops = ops_for(m, sides[victim], sides[1 - victim], own_pake[victim], chk.tier, seed())
            # split into chunks for the pool
            for i in range(0, len(ops), 40):
                tasks.append((victim, pos, ops[i:i + 40]))
    ctx = mp.get_context("fork")
    viol = []
    n = 0
    effects = set()
    samples = []
    with ctx.Pool(NPROC) as pool:
        for victim, pos, res in pool.imap_unordered(_work, tasks):
            m = stream[victim][pos]
            for op, vs, effect in res:
                n += 1
                effects.add((victim, pos, op[0], effect))
                case = dict(victim=victim, position=pos, original_phase=m["phase"],
                            original_from="self" if m["side"] == sides[victim] else "peer", op=list(op))
                if len(samples) < 6 and op[0] in ("side+phase", "inject", "flip", "phase"):
                    samples.append(dict(case, effect=repr(effect)))
                for v in vs:
                    v = dict(v, case=case)
                    v["sig"] = "%s:%s" % (v["sig"], op[0])
                    viol.append(v)
    chk.add_enum("single-tamper", n, effects,
                 "every single tamper operation (bit flip at every byte offset of the body, truncations, extensions, phase "
                 "re-labelling instead-of / in-addition, side renaming incl. reflection, cross-phase replay, injection of random "
                 "bodies and of garbage / reflected / other-password PAKEs, drop, duplicate) applied at every position of the "
                 "server->client `message` stream of both clients of an honest 2+1 message exchange, default schedule; "
                 "distinct_nontrivial counts distinct (victim, position, op kind, observable effect) tuples",
                 samples, viol, extra=dict(stream_positions=[len(stream[0]), len(stream[1])]))


# ---------------------------------------------------------------- schedules
TOPS = [("flip", 30, 0), ("phase", "1", "also"), ("phase", "version", "instead"), ("side", "$own", "also"),
        ("side", "$peer", "also"), ("side+phase", "$peer", "1", "also"), ("inject", "$peer", "0", "random"),
        ("inject", "$peer", "pake", "otherpw"), ("inject", "$peer", "pake", "own"), ("dup",),
        ("side", THIRD_SIDE, "instead"), ("phase", "0", "instead")]


LABEL_OPS = [i for i, op in enumerate(TOPS) if op[0] in ("side", "phase") and op[-1] == "instead"]


def extra_events(w):
    evs = []
    if w.tamper_left > 0:
        for c in w.clients:
            if c.ci in w.cfg["victims"] and c.conn and c.conn.open and not c.conn.stopping and c.conn.down \
                    and c.conn.down[0].get("type") == "message":
                for oi in range(len(TOPS)):
                    evs.append(("tamper", c.ci, oi))
            # label manipulations may also hit a message further back in the queue (which a reordering server then sends first)
            if c.ci in w.cfg["victims"] and c.conn and c.conn.open and not c.conn.stopping and w.cfg.get("reorder"):
                for k in range(1, min(len(c.conn.down), 4)):
                    if c.conn.down[k].get("type") == "message":
                        for oi in LABEL_OPS:
                            evs.append(("tamper", c.ci, oi, k))
    return evs


def extra_apply(w, ev):
    if ev[0] != "tamper":
        return False
    c = w.clients[ev[1]]
    w.tamper_left -= 1
    op = list(TOPS[ev[2]])
    own, peer = c.boss._side, w.clients[1 - c.ci].boss._side
    op = tuple(own if x == "$own" else peer if x == "$peer" else x for x in op)
    k = ev[3] if len(ev) > 3 else 0
    m = c.conn.down[k]
    del c.conn.down[k]
    if op[0] == "flip" and len(m["body"]) // 2 <= op[1]:
        op = ("flip", 0, 0)
    own_pake = None
    for mm in c.delivered_msgs():
        if mm["phase"] == "pake" and mm["side"] == own:
            own_pake = mm["body"]
    honest = m.get("_orig") or {k: v for k, v in m.items() if k not in ("id", "_orig")}
    base = {k: v for k, v in m.items() if k != "_orig"}
    outs = apply_op(op, base, own_pake or opp())
    for o in outs:
        if o.get("side") == m.get("side") or o.get("phase") == m.get("phase") or o.get("body") == m.get("body"):
            o["_orig"] = honest       # a (possibly manipulated) descendant of an honest message
    for o in reversed(outs):
        c.conn.down.insert(k, o)
    return True


def post_init(w):
    w.tamper_left = w.cfg["tamper"]
    w.forbidden = set()          # (client, phase): a manipulated descendant of the peer's message for that phase was delivered
    w.honest_delivered = set()   # (client, phase): the peer's honest message for that phase was delivered


def sched_deliver(w, c, msg):
    """runs when a message is handed to the client: classify it as honest or manipulated (ghost data for the oracle)"""
    if msg.get("type") != "message":
        return msg
    msg = dict(msg)
    orig = msg.pop("_orig", None)
    cur = {k: v for k, v in msg.items() if k != "id"}
    if orig is None:
        orig = cur
    if orig.get("side") != c.boss._side:
        key = (c.ci, orig.get("phase"))
        if cur == orig:
            w.honest_delivered.add(key)
        else:
            w.forbidden.add(key)
    return msg


def mon_sched(w):
    if _REFV.get("v") is None:
        ww = MailboxWorld(base_cfg(), seed())
        while ww.enabled():
            ww.apply(ww.enabled()[0])
        _REFV["v"] = [x for k, x in ww.clients[0].app.obs if k == "verifier"][0]
        from ..env.patches import CTX
        CTX.world = w
    for v in judge(w, dict(verifier=_REFV["v"])):
        w.flag(v["oracle"], v["sig"], v["msg"])
    for (ci, ph) in sorted(w.forbidden, key=repr):
        if (ci, ph) in w.honest_delivered:
            continue
        c = w.clients[ci]
        if ph == "version" and any(k == "versions" for k, _ in c.app.obs):
            w.flag("manipulated-accepted", "c%d:version" % ci, "client %d accepted a manipulated version message" % ci)
        if ph and ph.isdigit() and len(msgs(c.app)) > int(ph):
            w.flag("manipulated-accepted", "c%d:phase" % ci, "client %d accepted a manipulated phase-%s message" % (ci, ph))


_REFV = {}


def sched_cfg(victims, tamper, fine, mode="delegate", reorder=0, late_down=()):
    return base_cfg(late_down=tuple(late_down), mode=mode, explored=("down", "up", "api", "connect", "tamper", "reorder"), coarse=[i for i in (0, 1) if i not in fine],
                    victims=victims, tamper=tamper, reorder=reorder, extra_events=extra_events, extra_apply=extra_apply, post_init=post_init,
                    deliver_hook=sched_deliver, extra_state=lambda w: (w.tamper_left, w.forbidden, w.honest_delivered), monitors=[mon_sched])


def scenarios(tier):
    S = []
    if tier == "quick":
        S.append(mk("sched-tamper1-victim0", sched_cfg((0,), 1, (0,)), max_depth=100, max_states=400000))
        S.append(mk("sched-tamper2-dev2", sched_cfg((0, 1), 2, (0, 1)), dev_bound=2, max_depth=200))
        # deliveries to the victim are held back as long as anything else can happen, so that the peer's later messages queue up
        # behind its PAKE; then one reordering and one tamper operation
        S.append(mk("sched-heldback0-reorder1-tamper1-dev2", sched_cfg((0,), 1, (0, 1), reorder=1, late_down=(0,)), dev_bound=2, max_depth=200))
        S.append(mk("sched-heldback1-reorder1-tamper1-dev2", sched_cfg((1,), 1, (0, 1), reorder=1, late_down=(1,)), dev_bound=2, max_depth=200))
    else:
        S.append(mk("sched-tamper1-victim0", sched_cfg((0,), 1, (0,)), max_depth=100, max_states=4000000))
        S.append(mk("sched-tamper1-victim1", sched_cfg((1,), 1, (1,), mode="deferred"), max_depth=100, max_states=4000000))
        S.append(mk("sched-tamper2-dev3", sched_cfg((0, 1), 2, (0, 1)), dev_bound=3, max_depth=200))
        S.append(mk("sched-reorder1-tamper1-victim0", sched_cfg((0,), 1, (0,), reorder=1), max_depth=100, max_states=4000000))
    # replay by an honest mechanism: after a reconnect the server hands over the whole mailbox again (and may duplicate a message);
    # nothing may be delivered to the application a second time
    rc = sched_cfg((0,), 0, (0,))
    rc["clients"][0]["drops"] = 1
    rc["dup"] = 1
    rc["explored"] = ("down", "up", "api", "connect", "drop", "dup")
    if tier == "quick":
        S.append(mk("sched-reconnect-replay-dup-victim0-dev3", rc, dev_bound=3, max_depth=200))
    else:
        S.append(mk("sched-reconnect-replay-dup-victim0", rc, max_depth=120, max_states=4000000))
    return S


def phase_key_injective(chk):
    """derive_phase_key over a side x phase alphabet incl. concatenation-ambiguity pairs"""
    from wormhole._key import derive_phase_key
    key = b"k" * 32
    sides = ["a", "ab", "abc", "", "b", "bc", "c", "deadbeef01", "deadbeef0", "1", "a\u00e9", "\u00e9a"]
    phases = ["", "0", "1", "10", "01", "pake", "version", "c", "bc", "abc", "dilate-0", "dilate-1", "1deadbeef0", "0\u0661", "1\u00e9"]
    seen = {}
    viol = []
    n = 0
    for s in sides:
        for p in phases:
            n += 1
            try:
                k = derive_phase_key(key, s, p)
            except UnicodeEncodeError:
                continue        # labels outside ASCII are refused outright: fine
            if k in seen:
                viol.append(dict(oracle="phase-key-injective", sig="collision",
                                 msg="derive_phase_key collides for %r and %r" % (seen[k], (s, p)), case=[seen[k], [s, p]]))
            seen[k] = (s, p)
    chk.add_enum("phase-key-injective", n, set(seen.values()),
                 "derive_phase_key(key, side, phase) over %d sides x %d phases chosen so that side+phase concatenations collide; "
                 "all outputs must be pairwise distinct" % (len(sides), len(phases)), [["ab", "c"], ["a", "bc"]], viol)


def _long_session(args):
    n_peer, mode = args
    sent = ([b"a-zero", b"a-one"], [b"b-%d" % i for i in range(n_peer)])
    cfg = dict(clients=[dict(threads=[[("set_code", CODE)] + [("send", m) for m in sent[0]]], mode=mode, versions=VA),
                        dict(threads=[[("set_code", CODE)] + [("send", m) for m in sent[1]]], mode=mode, versions=VB)],
               explored=("down", "up", "api", "connect"))
    vers = [json.dumps(VA, sort_keys=True), json.dumps(VB, sort_keys=True)]
    viol = []

    def build():
        w = MailboxWorld(cfg, seed())
        for _ in range(20000):
            en = w.enabled()
            if not en:
                break
            w.apply(en[0])
        return w

    def look(w, tag):
        for c in w.clients:
            got = msgs(c.app)
            if got != sent[1 - c.ci][:len(got)]:
                viol.append(dict(oracle="authentic-messages", sig="long-session:c%d" % c.ci,
                                 msg="%s: client %d delivered %d messages %r..., the peer sent %d distinct ones, each once" % (
                                     tag, c.ci, len(got), got[-3:], len(sent[1 - c.ci]))))
            v = [x for k, x in c.app.obs if k == "versions"]
            if v != [vers[1 - c.ci]]:
                viol.append(dict(oracle="authentic-versions", sig="long-session:c%d" % c.ci,
                                 msg="%s: client %d was given the peer's versions %d times (the peer encrypted them once)" % (tag, c.ci, len(v))))
            vf = [x for k, x in c.app.obs if k == "verifier"]
            if len(vf) != 1:
                viol.append(dict(oracle="authentic-verifier", sig="long-session:c%d" % c.ci, msg="%s: client %d reported the verifier %d times" % (tag, c.ci, len(vf))))
    w = build()
    look(w, "honest session of %d+2 messages" % n_peer)
    for c in w.clients:
        if len(msgs(c.app)) != len(sent[1 - c.ci]):
            viol.append(dict(oracle="harness", sig="long-session-incomplete", msg="default schedule delivered %d of %d" % (len(msgs(c.app)), len(sent[1 - c.ci]))))
    nrep = 0
    rebuilds = 0
    if not viol:
        for ci in (0, 1):
            stored = [dict(m) for m in w.clients[ci].delivered_msgs()]
            for j, m in enumerate(stored):
                c = w.clients[ci]
                w._deliver(c, dict(m), record=False)
                nrep += 1
                look(w, "after %d+2 messages, exact replay of stored message %d (%s from %s) to client %d" % (n_peer, j, m.get("phase"), m.get("side"), ci))
                if viol:
                    break
                if any(k == "closed" for k, _ in c.app.obs) or w.escaped:
                    # closing with an error on a replay is within the property; the remaining replays need a live session again
                    rebuilds += 1
                    if rebuilds > 16:
                        break
                    w = build()
            if viol or rebuilds > 16:
                break
    seen = set()
    viol = [v for v in viol if not (v["sig"] in seen or seen.add(v["sig"]))]
    for v in viol:
        v["case"] = dict(n_peer=n_peer, mode=mode)
    return (n_peer, mode, rebuilds), nrep, viol


def long_session_replay(chk):
    """the server (conformant: on every re-open; or hostile) may hand a stored message to a client again at any later time: after a
    long honest session every stored message is replayed exactly, one at a time"""
    sizes = (2, 30, 31, 32, 33, 34, 64, 65, 130) if chk.tier == "quick" else (2, 15, 16, 17, 30, 31, 32, 33, 34, 63, 64, 65, 100, 127, 128, 129, 130, 257, 300)
    tasks = [(n, mode) for n in sizes for mode in ("delegate", "deferred")]
    viol = []
    keys = set()
    n = 0
    ctx = mp.get_context("fork")
    with ctx.Pool(NPROC) as pool:
        for key, nrep, vs in pool.imap_unordered(_long_session, tasks):
            n += nrep
            keys.add(key)
            viol.extend(vs)
    chk.add_enum("long-session-replay", n, keys, "honest sessions in which the peer sends N application messages (N in %r, both API styles), run to "
                 "quiescence on the real server; then every `message` event each client ever received (own echoes, pake, version, every phase) is "
                 "delivered again, exactly, one at a time: nothing is delivered to the application twice, versions / verifier stay reported once "
                 "(a client that closes on a replay is within the property; the session is rebuilt for the remaining replays)" % (sizes,), [list(t) for t in tasks[:3]], viol)


def run(chk):
    chk.assumptions += W1_ASSUMPTIONS
    chk.assumptions.append("the adversary controls what is delivered to a client on the server->client stream; it does not hold the wormhole code")
    if not getattr(chk, "only", None) or chk.only == "long-session-replay":
        long_session_replay(chk)
    if getattr(chk, "only", None) == "long-session-replay":
        return
    enumerate_tamper(chk)
    phase_key_injective(chk)
    run_scenarios(chk, scenarios(chk.tier))


def replay(body):
    global _REF
    if body.get("case") and isinstance(body["case"], dict) and "op" in body["case"]:
        c = body["case"]
        ww = MailboxWorld(base_cfg(), seed())
        while ww.enabled():
            ww.apply(ww.enabled()[0])
        _REF = dict(verifier=[x for k, x in ww.clients[0].app.obs if k == "verifier"][0])
        w = run_tampered(c["victim"], c["position"], tuple(c["op"]))
        for cl in w.clients:
            print("client", cl.ci, cl.app.obs)
        vs = judge(w, _REF)
        for v in vs:
            print("VIOLATION-REPLAYED", v["oracle"], v["sig"], v["msg"])
        return 1 if vs else 0
    if body.get("case") and isinstance(body["case"], dict) and "n_peer" in body["case"]:
        _, nrep, vs = _long_session((body["case"]["n_peer"], body["case"]["mode"]))
        for v in vs:
            print("VIOLATION-REPLAYED", v["oracle"], v["sig"], v["msg"])
        return 1 if vs else 0
    return _replay(body, scenarios(body.get("tier", "quick")))
