"""C19 - codes are well-formed with the promised entropy; code entry is consistent."""
import itertools
import json
import re

from .w1common import mk, run_scenarios, replay as _replay, W1_ASSUMPTIONS, seed
from ..env.mailbox import MailboxWorld
from ..env import patches

import wormhole._wordlist as wl
from wormhole._wordlist import PGPWordList, raw_words
from wormhole import errors as werrors

LEVEL = "model_checking"

EVEN = set(v[0].lower() for v in raw_words.values())
ODD = set(v[1].lower() for v in raw_words.values())


def code_ok(code, nameplate, length):
    parts = code.split("-")
    if parts[0] != nameplate or len(parts) != 1 + length:
        return False
    for i, w in enumerate(parts[1:]):
        if w not in (ODD if i % 2 == 0 else EVEN):
            return False
    return True


# ---------------------------------------------------------------- (a) entropy
class EnumOs:
    """os stand-in whose urandom() returns scripted bytes and records the reads"""

    def __init__(self, script):
        self.script = list(script)
        self.reads = []

    def urandom(self, n):
        self.reads.append(n)
        out = bytes(self.script[:n])
        del self.script[:n]
        return out


def part_a(chk):
    viol = []
    n = 0
    keys = set()
    saved = wl.os
    samples = []
    try:
        for L in (1, 2, 3, 4):
            for j in range(L):
                for others in (0x00, 0x7f, 0xff):
                    words_at_j = {}
                    for b in range(256):
                        script = [others] * L
                        script[j] = b
                        e = EnumOs(script)
                        wl.os = e
                        out = PGPWordList().choose_words(L)
                        n += 1
                        parts = out.split("-")
                        if e.reads != [1] * L:
                            viol.append(dict(oracle="entropy", sig="reads", msg="choose_words(%d) read %r from urandom" % (L, e.reads), case=[L, j, b]))
                        if len(parts) != L:
                            viol.append(dict(oracle="entropy", sig="length", msg="choose_words(%d) -> %r" % (L, out), case=[L, j, b]))
                            continue
                        for i, w in enumerate(parts):
                            lst = ODD if i % 2 == 0 else EVEN
                            if w not in lst or w != w.lower():
                                viol.append(dict(oracle="entropy", sig="parity", msg="word %d of %r not in the %s list" % (i, out, "odd" if i % 2 == 0 else "even"), case=[L, j, b]))
                        words_at_j[b] = parts[j]
                        keys.add((L, j, parts[j]))
                        # independence: the other positions must not change when byte j changes
                        ref = words_at_j.setdefault("others", [p for i, p in enumerate(parts) if i != j])
                        if [p for i, p in enumerate(parts) if i != j] != ref:
                            viol.append(dict(oracle="entropy", sig="independence", msg="changing byte %d changed another word: %r" % (j, out), case=[L, j, b]))
                        if len(samples) < 3 and b == 0x2a:
                            samples.append(dict(length=L, bytes=script, words=out))
                    ws = [words_at_j[b] for b in range(256)]
                    if len(set(ws)) != 256:
                        viol.append(dict(oracle="entropy", sig="bijection",
                                         msg="choose_words(%d): position %d takes only %d distinct words over all 256 byte values" % (L, j, len(set(ws))),
                                         case=[L, j]))
    finally:
        wl.os = saved
    chk.add_enum("choose-words-entropy", n, keys,
                 "choose_words(L) for L=1..4 with os.urandom replaced by an enumerator: for each position j, all 256 byte values with the "
                 "other positions held at 3 values: exactly L one-byte reads, word j is a bijection of byte j onto 256 lowercase words of the "
                 "right parity, other words unchanged (=> uniform and independent given uniform bytes)", samples, viol)


# ---------------------------------------------------------------- (b) allocation through the real machines
def part_b(chk):
    viol = []
    n = 0
    keys = set()
    samples = []
    for nameplate in ("1", "17", "999", "1000"):
        for L in (1, 2, 3, 4):
            for mode in ("deferred", "delegate"):
                def post(w, np=nameplate):
                    w.force_nameplate = np
                cfg = dict(clients=[dict(threads=[[("allocate", L)]], mode=mode)], explored=("down", "up", "api", "connect"),
                           post_init=post)
                w = MailboxWorld(cfg, seed())
                steps = 0
                while w.enabled() and steps < 500:
                    steps += 1
                    w.apply(w.enabled()[0])
                n += 1
                codes = [v for k, v in w.clients[0].app.obs if k == "code"]
                keys.add((nameplate, L, tuple(codes)))
                if len(samples) < 3:
                    samples.append(dict(nameplate=nameplate, length=L, code=codes))
                if len(codes) != 1 or not code_ok(codes[0], nameplate, L):
                    viol.append(dict(oracle="allocated-code", sig="format", msg="allocate_code(%d) on nameplate %s -> %r" % (L, nameplate, codes),
                                     case=[nameplate, L, mode]))
                if w.errors or w.escaped:
                    viol.append(dict(oracle="allocated-code", sig="internal", msg="%r %r" % (w.errors, w.escaped), case=[nameplate, L, mode]))
    chk.add_enum("allocate-code", n, keys, "allocate_code(L) through the real Allocator/Code/Nameplate against the real server for nameplates "
                 "{1,17,999,1000} x L=1..4 x both API styles: get_code fires once with `nameplate-words`", samples, viol)


# ---------------------------------------------------------------- (c) malformed codes
BAD_CODES = [" 4-purple-sausages", "4 -purple-sausages", "4- purple-sausages", "4-purple sausages", "4-purple-sausages ",
             "4 4-purple", " ", "a4-purple-sausages", "4a-purple-sausages", "four-purple-sausages", "-4-purple-sausages",
             "-purple-sausages", "", "-", "4.5-purple", "+4-purple", "0x4-purple", "4_-purple", "purple-sausages", "4,5-purple"]
GOOD_CODES = ["4-purple-sausages", "0-a", "123456-x-y-z", "4-", "4", "4--", "04-purple"]


def part_c(chk):
    viol = []
    n = 0
    keys = set()
    for code in BAD_CODES + GOOD_CODES:
        bad = code in BAD_CODES
        for mode in ("deferred", "delegate"):
            cfg = dict(clients=[dict(threads=[[("set_code", code)]], mode=mode)], explored=("down", "up", "api", "connect"))
            w = MailboxWorld(cfg, seed())
            sent = []
            w.apply(("connect", 0))
            w.apply(("api", 0, 0))
            steps = 0
            while w.enabled() and steps < 300:
                steps += 1
                ev = w.enabled()[0]
                if ev[0] == "up":
                    sent.append(json.loads(w.clients[0].conn.up[0].decode())["type"])
                w.apply(ev)
            n += 1
            if steps >= 300:
                viol.append(dict(oracle="malformed-code", sig="livelock:%r" % code,
                                 msg="set_code(%r): the client and the server never quiesce (server errors %r)" % (code, w.server_errors[:2]), case=code))
            errs = w.clients[0].app.api_errors
            keys.add((code, tuple(errs)))
            if bad:
                if errs != [("set_code", "KeyFormatError")]:
                    viol.append(dict(oracle="malformed-code", sig="accepted:%r" % code, msg="set_code(%r) -> %r, expected KeyFormatError" % (code, errs), case=code))
                if [t for t in sent if t != "bind"]:
                    viol.append(dict(oracle="malformed-code", sig="sent:%r" % code, msg="set_code(%r) was rejected but %r reached the server" % (code, sent), case=code))
                if any(k == "code" for k, _ in w.clients[0].app.obs):
                    viol.append(dict(oracle="malformed-code", sig="got_code:%r" % code, msg="rejected code was reported by get_code", case=code))
            else:
                if errs:
                    viol.append(dict(oracle="malformed-code", sig="rejected-good:%r" % code, msg="well-formed %r rejected: %r" % (code, errs), case=code))
    chk.add_enum("malformed-codes", n, keys, "set_code over %d malformed (spaces anywhere, non-numeric / empty / signed nameplates) and %d well-formed "
                 "codes, both API styles, connected client: KeyFormatError and nothing but `bind` reaches the server" % (len(BAD_CODES), len(GOOD_CODES)),
                 BAD_CODES[:3], viol)


# ---------------------------------------------------------------- (d) completions
def part_d(chk):
    viol = []
    n = 0
    keys = set()
    w = PGPWordList()
    samples = []
    firsts = ["", "yucatan-", "adroitness-"]          # valid earlier odd-list words (position 0)
    seconds = ["", "zulu-", "aardvark-"]               # even-list words (position 1)
    for num_words in (1, 2, 3):
        for pos in range(num_words):
            lst = ODD if pos % 2 == 0 else EVEN
            if pos == 0:
                befores = [""]
            elif pos == 1:
                befores = [f for f in firsts if f]
            else:
                befores = [a + b for a in firsts if a for b in seconds if b]
            prefixes = set()
            for word in sorted(lst):
                for i in range(len(word) + 1):
                    prefixes.add(word[:i])
            prefixes |= {"zzz", "q9", "Purple", "-"}
            for before in befores:
                for p in sorted(prefixes):
                    typed = before + p
                    if typed.count("-") != pos:
                        continue
                    comps = w.get_completions(typed, num_words)
                    n += 1
                    keys.add((num_words, pos, p))
                    expect = set(before + word + ("-" if pos + 1 < num_words else "") for word in lst if word.startswith(p))
                    if comps != expect:
                        viol.append(dict(oracle="completions", sig="set:%d:%d" % (num_words, pos),
                                         msg="get_completions(%r,%d) = %d entries, reference %d; diff %r" % (
                                             typed, num_words, len(comps), len(expect), sorted(comps ^ expect)[:4]), case=[typed, num_words]))
                    for c in comps:
                        if not c.startswith(typed):
                            viol.append(dict(oracle="completions", sig="extends", msg="completion %r does not extend %r" % (c, typed), case=[typed, num_words]))
                        if c.endswith("-") != (pos + 1 < num_words):
                            viol.append(dict(oracle="completions", sig="hyphen", msg="completion %r of %r (%d words): hyphen wrong" % (c, typed, num_words), case=[typed, num_words]))
                        if pos + 1 == num_words and not code_ok("7-" + c, "7", num_words):
                            viol.append(dict(oracle="completions", sig="producible", msg="choosing %r gives a code allocate_code(%d) cannot produce" % (c, num_words), case=[typed, num_words]))
                    if len(samples) < 3 and len(comps) in (2, 3):
                        samples.append(dict(typed=typed, num_words=num_words, completions=sorted(comps)))
    chk.add_enum("word-completions", n, keys, "PGPWordList.get_completions for every prefix of every list word (plus non-matching junk) at word positions "
                 "0..2 for 1-3 word codes, preceded by valid earlier words, against a reference set comprehension; each completion extends the input, "
                 "has the right parity, a hyphen iff more words follow, and a full completion is a code allocate_code can produce", samples, viol)
    # nameplate completions through the real Input machine
    from wormhole._input import Input
    from wormhole.timing import DebugTiming
    viol = []
    n = 0
    keys = set()
    names = ["1", "12", "123", "2"]
    for r in range(len(names) + 1):
        for subset in itertools.combinations(names, r):
            for prefix in ["", "1", "12", "123", "1234", "2", "3", "x"]:
                i = Input(DebugTiming())

                class L:
                    def refresh(self):
                        pass

                class C:
                    def got_nameplate(self, n):
                        pass
                i._L, i._C = L(), C()
                i.start()
                i.got_nameplates(set(subset))
                got = i.get_nameplate_completions(prefix)
                n += 1
                keys.add((subset, prefix))
                expect = set(x + "-" for x in subset if x.startswith(prefix))
                if got != expect:
                    viol.append(dict(oracle="completions", sig="nameplates", msg="nameplates %r prefix %r -> %r expected %r" % (subset, prefix, got, expect),
                                     case=[list(subset), prefix]))
    chk.add_enum("nameplate-completions", n, keys, "Input.get_nameplate_completions for 8 prefixes against all 16 subsets of {1,12,123,2}", [["1", "12"], "1"], viol)


def part_d2(chk):
    """word completions as the interactive helper hands them out: the real Input machine with the real PGP wordlist, typed prefixes
    in every letter case; reference = case-sensitive set comprehension over the word lists (so the reference does not share code
    with the implementation), plus the clause 'every completion offered extends what was typed'"""
    from wormhole._input import Input
    from wormhole.timing import DebugTiming
    viol = []
    n = 0
    keys = set()

    class L:
        def refresh(self):
            pass

    class C:
        def got_nameplate(self, n):
            pass

        def finished_input(self, code):
            pass
    i = Input(DebugTiming())
    i._L, i._C = L(), C()
    i.start()
    i.choose_nameplate("7")
    i.got_wordlist(PGPWordList())

    def variants(p):
        out = {p, p.upper(), p.capitalize(), p.swapcase()}
        if len(p) >= 2:
            out.add(p[0] + p[1:].upper())
            out.add(p[:-1] + p[-1].upper())
        return out
    typed = set()
    for word in sorted(ODD):
        for k in (0, 1, 2, 3, len(word)):
            for v in variants(word[:k]):
                typed.add(v)
    for first in ("yucatan", "Yucatan", "YUCATAN", "adroitness"):
        for word in sorted(EVEN)[::7]:
            for k in (0, 1, 2, len(word)):
                for v in variants(word[:k]):
                    typed.add(first + "-" + v)
    typed |= {"zzz", "-", "Zulu", "ZULU", "yucatan-Zulu", "É", "ß", "ı", "yucatan-İ"}
    for t in sorted(typed):
        try:
            got = i.get_word_completions(t)
        except Exception as e:
            viol.append(dict(oracle="completions", sig="input-raises:%s" % type(e).__name__, msg="Input.get_word_completions(%r) raised %r" % (t, e), case=[t]))
            continue
        n += 1
        pos = t.count("-")
        keys.add((pos, len(got) > 0, t != t.lower()))
        if pos > 1:
            continue
        before, _, last = t.rpartition("-")
        lst = ODD if pos == 0 else EVEN
        expect = set((before + "-" if pos else "") + w_ + ("-" if pos == 0 else "") for w_ in lst if w_.startswith(last))
        if pos == 1 and before not in ODD and before.lower() not in ODD:
            expect = None
        for c in got:
            if not c.startswith(t):
                viol.append(dict(oracle="completions", sig="input-extends", msg="typed %r: the helper offers %r, which does not extend what was typed" % (t, c), case=[t]))
                break
        if expect is not None and got != expect and all(c.startswith(t) for c in got):
            viol.append(dict(oracle="completions", sig="input-set:%d" % pos, msg="typed %r: helper offers %d completions, reference %d; diff %r" % (
                t, len(got), len(expect), sorted(got ^ expect)[:4]), case=[t]))
    chk.add_enum("input-word-completions", n, keys, "Input.get_word_completions on the real PGP wordlist for prefixes (lengths 0-3 and full) of every odd-list "
                 "word and of every 7th even-list word after a first word, each in six letter-case variants, plus non-ASCII and junk prefixes: every "
                 "completion extends exactly what was typed and the set equals a case-sensitive reference comprehension", sorted(typed)[:3], viol)


# ---------------------------------------------------------------- (e) only one code call
def part_e(chk):
    viol = []
    n = 0
    keys = set()
    ops = {"allocate": ("allocate", 2), "set-good": ("set_code", "4-purple-sausages"), "set-bad": ("set_code", "4 purple"), "input": ("input",)}
    samples = []
    for L in (1, 2, 3):
        for seq in itertools.product(sorted(ops), repeat=L):
            for mode in ("deferred", "delegate"):
                cfg = dict(clients=[dict(threads=[[ops[o] for o in seq]], mode=mode)], explored=("down", "up", "api", "connect"))
                w = MailboxWorld(cfg, seed())
                for _ in seq:
                    w.apply(("api", 0, 0))
                n += 1
                errs = list(w.clients[0].app.api_errors)
                started = False
                expect = []
                for o in seq:
                    if o == "set-bad":
                        expect.append(("set_code", "KeyFormatError"))
                    elif started:
                        expect.append((ops[o][0], "OnlyOneCodeError"))
                    else:
                        started = True
                keys.add((seq, tuple(errs)))
                if len(samples) < 3 and L == 3:
                    samples.append(dict(calls=list(seq), errors=errs))
                if errs != expect or w.escaped:
                    viol.append(dict(oracle="only-one-code", sig="%s" % "+".join(seq), msg="%r -> %r, expected %r (escaped %r)" % (seq, errs, expect, w.escaped),
                                     case=list(seq)))
    chk.add_enum("only-one-code", n, keys, "every sequence of 1-3 calls over {allocate_code, set_code(good), set_code(malformed), input_code}, both API styles: "
                 "every call after the first successful start raises OnlyOneCodeError, malformed codes raise KeyFormatError and do not count as a start",
                 samples, viol)


# ---------------------------------------------------------------- (f) helper sequences (model checked)
HELPER_OPS = [("refresh",), ("completions_np", "1"), ("nameplate", "12"), ("nameplate", "x y"), ("completions_w", "pur"), ("words", "purple-sausages")]
EXC = {"refresh": None}


def ref_step(ref, op):
    """boring reference model of the input helper; returns expected (kind, value)"""
    st = ref["state"]
    name = op[0]
    if name == "nameplate" and not re.search(r"^\d+$", op[1]):
        return ("err", "KeyFormatError")
    if name == "refresh":
        return ("ok", None) if st == "np" else ("err", "AlreadyChoseNameplateError")
    if name == "completions_np":
        if st != "np":
            return ("err", "AlreadyChoseNameplateError")
        return ("ok", tuple(sorted(n + "-" for n in ref["known"] if n.startswith(op[1]))))
    if name == "nameplate":
        if st != "np":
            return ("err", "AlreadyChoseNameplateError")
        ref["state"] = "words"
        return ("ok", None)
    if name == "completions_w":
        if st == "np":
            return ("err", "MustChooseNameplateFirstError")
        if st == "done":
            return ("err", "AlreadyChoseWordsError")
        if not ref["wordlist"]:
            return ("ok", ())
        return ("ok", tuple(sorted(PGPWordList().get_completions(op[1]))))
    if name == "words":
        if st == "np":
            return ("err", "MustChooseNameplateFirstError")
        if st == "done":
            return ("err", "AlreadyChoseWordsError")
        ref["state"] = "done"
        return ("ok", None)
    raise ValueError(op)


def helper_events(w):
    c = w.clients[0]
    if c.app.helper is None or w.ref["calls"] >= w.cfg["max_calls"]:
        return []
    return [("helper", 0, i) for i in range(len(HELPER_OPS))]


def helper_apply(w, ev):
    if ev[0] != "helper":
        return False
    c = w.clients[0]
    op = HELPER_OPS[ev[2]]
    w.ref["calls"] += 1
    exp = ref_step(w.ref, op)
    h = c.app.helper
    try:
        if op[0] == "refresh":
            got = ("ok", h.refresh_nameplates())
        elif op[0] == "completions_np":
            got = ("ok", tuple(sorted(h.get_nameplate_completions(op[1]))))
        elif op[0] == "nameplate":
            got = ("ok", h.choose_nameplate(op[1]))
        elif op[0] == "completions_w":
            got = ("ok", tuple(sorted(h.get_word_completions(op[1]))))
        else:
            got = ("ok", h.choose_words(op[1]))
    except werrors.WormholeError as e:
        got = ("err", type(e).__name__)
    except Exception as e:
        got = ("err", "INTERNAL:" + type(e).__name__)
    if got != exp:
        w.flag("helper-model", "%s:%s" % (op[0], exp[1] if exp[0] == "err" else "value"),
               "helper.%s%r returned %r, reference model says %r (model state %r)" % (op[0], op[1:], got, exp, w.ref))
    return True


def helper_deliver(w, c, msg):
    if msg.get("type") == "nameplates" and w.ref["state"] == "np":
        w.ref["known"] = sorted(n["id"] for n in msg["nameplates"])
    if msg.get("type") == "claimed":
        w.ref["wordlist"] = True
    return msg


def helper_post(w):
    w.ref = dict(state="np", known=[], wordlist=False, calls=0)


def fin_helper(w):
    out = []
    c = w.clients[0]
    codes = [v for k, v in c.app.obs if k == "code"]
    if w.ref["state"] == "done" and codes != ["12-purple-sausages"]:
        out.append(dict(oracle="helper-model", sig="final-code", msg="words chosen but get_code gave %r" % (codes,)))
    if w.ref["state"] != "done" and codes:
        out.append(dict(oracle="helper-model", sig="early-code", msg="code %r reported before the words were chosen" % (codes,)))
    if w.errors or w.escaped:
        out.append(dict(oracle="helper-model", sig="internal", msg="%r %r" % (w.errors, w.escaped)))
    return out


def helper_cfg(max_calls, mode="deferred"):
    # a second client holds nameplates 12 (claimed) so that `list` returns something
    return dict(clients=[dict(threads=[[("input",)]], mode=mode),
                         dict(threads=[[("set_code", "12-purple-sausages")]], mode="delegate")],
                explored=("down", "up", "api", "connect", "helper"), coarse=[1], max_calls=max_calls,
                extra_events=helper_events, extra_apply=helper_apply, deliver_hook=helper_deliver, post_init=helper_post,
                extra_state=lambda w: w.ref, final_monitors=[fin_helper])


def scenarios(tier):
    if tier == "quick":
        return [mk("helper-seq3", helper_cfg(3), max_depth=60, max_states=600000)]
    return [mk("helper-seq4", helper_cfg(4), max_depth=60, max_states=4000000),
            mk("helper-seq3-delegate", helper_cfg(3, "delegate"), max_depth=60, max_states=4000000)]


def run(chk):
    chk.assumptions += W1_ASSUMPTIONS
    chk.assumptions.append("nameplates with exotic whitespace or non-ASCII digits are outside the stated alphabet (spaces, non-numeric); "
                           "the readline completer thread is not modelled: the helper is driven on the reactor thread as _rlcompleter's bridge does")
    part_a(chk)
    part_b(chk)
    part_c(chk)
    part_d(chk)
    part_d2(chk)
    part_e(chk)
    run_scenarios(chk, scenarios(chk.tier))


def replay(body):
    if body.get("events"):
        return _replay(body, scenarios(body.get("tier", "quick")))
    print("enumeration case:", body.get("case"), "-", body.get("message"))
    from ..core.report import Check
    chk = Check("C19", "quick", seed())
    chk.log = lambda m: None
    for part in (part_a, part_b, part_c, part_d, part_d2, part_e):
        part(chk)
    for v in chk.violations:
        print("VIOLATION-REPLAYED", v["oracle"], v["sig"], v["msg"])
    return 1 if chk.violations else 0
