"""C07 - transit picks exactly one connection, chosen by the sender, key holders only."""
import os

from ..core.explore import Scenario, explore, run_linear
from ..env.transitworld import TransitWorld, RelayProto, StrangerProto, unwrap, S_HOST, R_HOST
from ..env import transitworld as tw

from wormhole import transit

LEVEL = "model_checking"
DEADLINE = 2 * transit.TIMEOUT


def seed():
    return int(os.environ.get("VERIF_SEED", "0") or 0)


def peer_protocol(link, side):
    """the protocol at the far end of the byte pipe that starts at (link, side), looking through the relay"""
    other = unwrap(link.ends[1 - side].protocol)
    if isinstance(other, RelayProto):
        if other.peer is None:
            return None
        t = other.peer.transport
        return unwrap(t.link.ends[1 - t.side].protocol)
    return other


def mon(w):
    s_rec = [(l, sd, p) for (l, sd, p) in w.conns("S") if p.state == "records"]
    if len(s_rec) > 1:
        w.flag("one-winner", "sender-two-records", "the sender has %d connections in state records" % len(s_rec))
    for (l, sd, p) in s_rec:
        if w.S._winner is not p:
            w.flag("one-winner", "records-not-winner", "a sender connection is in records but is not _winner")
        q = peer_protocol(l, sd)
        if not (isinstance(q, transit.Connection) and q.owner is w.R):
            w.flag("key-holders-only", "sender-selected-stranger", "the sender confirmed a connection whose far end is %r" % type(q).__name__)
    if w.S._winner is not None and w.called["S"] and w.results["S"] is None:
        w.flag("same-link", "winner-not-returned", "the sender confirmed a connection (sent go) but its connect() has not returned it")
    if w.S._winner is not None and w.results["S"] and w.results["S"][0] == "ok" and w.results["S"][1] is not w.S._winner:
        w.flag("same-link", "returned-other-than-winner", "the sender's connect() returned a connection other than the one it confirmed")
    r_rec = [(l, sd, p) for (l, sd, p) in w.conns("R") if p.state == "records"]
    if len(r_rec) > 1:
        w.flag("one-winner", "receiver-two-records", "the receiver has %d connections in state records" % len(r_rec))
    for (l, sd, p) in r_rec:
        q = peer_protocol(l, sd)
        if not (isinstance(q, transit.Connection) and q.owner is w.S):
            w.flag("key-holders-only", "receiver-selected-stranger", "the receiver uses a connection whose far end is %r" % type(q).__name__)
        elif not (q is w.S._winner):
            w.flag("sender-chooses", "receiver-uses-unconfirmed", "the receiver uses a connection the sender did not confirm (sender end state %r)" % (q.state,))
    for who in ("S", "R"):
        res = w.results[who]
        if res and res[0] == "ok" and res[1].state not in ("records",) and not res[1].transport.closed and not res[1].transport.disconnecting \
                and res[1].state != "hung up":
            w.flag("one-winner", "result-not-records", "%s.connect() returned a connection in state %r" % (who, res[1].state))
        t0 = w.__dict__.setdefault("_t_call", {})
        if w.called[who] and who not in t0:
            t0[who] = w.now
        if w.called[who] and res is None and w.now - t0[who] > DEADLINE + 1e-6:
            w.flag("deadline", who, "%s.connect() still pending %.1fs after it was called (deadline %ds)" % (who, w.now - t0[who], DEADLINE))


def fin(w):
    out = []
    rs, rr = w.results["S"], w.results["R"]
    for who, res in (("S", rs), ("R", rr)):
        if res is None:
            out.append(dict(oracle="deadline", sig="%s-pending-at-quiescence" % who,
                            msg="quiescent (no timers left, t=%.1f) but %s.connect() never finished" % (w.now, who)))
    win = None
    if rs and rr and rs[0] == "ok" and rr[0] == "ok":
        ls = [(l, sd) for (l, sd, p) in w.conns("S") if p is rs[1]][0]
        q = peer_protocol(*ls)
        if q is not rr[1]:
            out.append(dict(oracle="same-link", sig="different-links", msg="both connect() succeeded but the results are not the two ends of one link"))
    keep = set()
    for who, res in (("S", rs), ("R", rr)):
        if res and res[0] == "ok":
            for (l, sd, p) in w.conns(who):
                if p is res[1]:
                    keep.add(l.idx)
                    o = unwrap(l.ends[1 - sd].protocol)
                    if isinstance(o, RelayProto) and o.peer is not None:
                        keep.add(o.peer.transport.link.idx)
    for l in w.net.links:
        if l.idx in keep:
            continue
        for e in l.ends:
            if not e.transport.closed:
                out.append(dict(oracle="losers-closed", sig="open-link", msg="link %d (%s) is still open at quiescence; results %r" % (
                    l.idx, [type(unwrap(x.protocol)).__name__ for x in l.ends], w.outcome())))
                break
    for (h, p), port in w.net.listeners.items():
        if h in (S_HOST, R_HOST) and port.listening:
            out.append(dict(oracle="losers-closed", sig="listener-open", msg="listener %s:%d still open at quiescence" % (h, p)))
    if w.errors:
        out.append(dict(oracle="internal", sig=w.errors[0][0], msg="errors: %r" % (w.errors,)))
    return out


def mk(name, cfg, **kw):
    s = seed()
    cfg = dict(cfg, monitors=[mon], final_monitors=[fin])

    def factory():
        return TransitWorld(cfg, s)
    return Scenario(name, factory, **kw)


KINDS = ["junk", "http", "partial", "otherkey", "go-early", "silent", "prefix-then-junk", "late-diverge", "reflect"]


def scenarios(tier):
    q = tier == "quick"
    S = []
    ch = "lines"
    L = dict(lazy_timer=True)     # time passes only when the network is otherwise quiet
    S.append(mk("direct-r-listens", dict(r_listens=True, chunking="lines"), max_depth=80, max_states=500000))
    # transports that keep delivering in-flight bytes after loseConnection() until the close completes (allowed by ITransport,
    # e.g. TLS): a contender that was cancelled (deadline, or a winner elsewhere) must stay deaf to the rest of a handshake
    S.append(mk("direct-r-listens-linger", dict(r_listens=True, chunking="lines", linger_reads=True), max_depth=80, max_states=500000))
    S.append(mk("both-listen-race", dict(r_listens=True, s_listens=True, chunking=ch, conn_fail=True, **L), max_depth=100, max_states=1500000))
    S.append(mk("relay-only", dict(relay=True, chunking=ch, **L), max_depth=100, max_states=1500000))
    S.append(mk("direct-vs-relay-lazy", dict(r_listens=True, relay=True, chunking="whole", **L), max_depth=120, max_states=1500000))
    S.append(mk("direct-vs-relay-race-dev", dict(r_listens=True, relay=True, chunking="whole", conn_fail=False), dev_bound=3 if q else 4, max_depth=150))
    S.append(mk("two-relays", dict(relay=True, relay2=True, chunking="whole", conn_fail=False, **L), max_depth=140, max_states=600000 if q else 3000000))
    S.append(mk("two-relays-timers-dev", dict(relay=True, relay2=True, chunking="whole", conn_fail=False), dev_bound=3 if q else 4, max_depth=200))
    # transit.py keeps contenders / Deferreds in sets of id-hashed objects and iterates them (cancel the losers, pick among
    # finished ones): the scenarios above see them in insertion order, these see them in reverse order
    if q:
        S.append(mk("two-relays-revsets-dev", dict(relay=True, relay2=True, chunking="whole", conn_fail=False, set_order="rev", **L), dev_bound=3, max_depth=140))
    else:
        S.append(mk("two-relays-revsets", dict(relay=True, relay2=True, chunking="whole", conn_fail=False, set_order="rev", **L), max_depth=140, max_states=3000000))
    S.append(mk("both-listen-race-revsets", dict(r_listens=True, s_listens=True, chunking=ch, conn_fail=True, set_order="rev", **L), max_depth=100,
                max_states=1500000))
    S.append(mk("all-three-paths-revsets", dict(r_listens=True, s_listens=True, relay=True, chunking="whole", conn_fail=False, set_order="rev", **L),
                max_depth=150, max_states=3000000))
    S.append(mk("no-honest-path", dict(r_listens=True, chunking="whole"), max_depth=60))   # conn_fail explored: S's only attempt may fail
    for kind in (KINDS if not q else ["junk", "partial", "otherkey", "go-early", "late-diverge", "reflect"]):
        S.append(mk("stranger-in-%s" % kind, dict(r_listens=True, strangers=[(kind, "R-listener")], chunking="whole", conn_fail=False, **L),
                    max_depth=100, max_states=800000))
    for kind in (KINDS if not q else ["partial", "otherkey", "late-diverge"]):
        S.append(mk("stranger-hint-%s" % kind, dict(r_listens=True, strangers=[(kind, "hint-for-S")], chunking="whole", conn_fail=False, **L),
                    max_depth=100, max_states=800000))
    # a relay server without the transit key ("ok" followed by its own idea of a handshake, arriving in one segment or cut at the line end):
    # as the victim's only path, and racing (timers interleaved) with the honest direct path
    for kind in (KINDS if not q else ["otherkey", "late-diverge", "reflect", "go-early"]):
        S.append(mk("stranger-relay-only-for-S-%s" % kind, dict(strangers=[(kind, "relay-hint-for-S")], chunking="lines", conn_fail=False, **L),
                    max_depth=100, max_states=800000))
    for kind in (KINDS if not q else ["otherkey", "late-diverge"]):
        S.append(mk("stranger-relay-only-for-R-%s" % kind, dict(strangers=[(kind, "relay-hint-for-R")], chunking="lines", conn_fail=False, **L),
                    max_depth=100, max_states=800000))
    S.append(mk("stranger-relay-vs-direct-S-dev", dict(r_listens=True, strangers=[("otherkey", "relay-hint-for-S")], chunking="lines", conn_fail=False),
                dev_bound=3 if q else 4, max_depth=150))
    S.append(mk("stranger-relay-vs-direct-R-dev", dict(s_listens=True, strangers=[("otherkey", "relay-hint-for-R")], chunking="lines", conn_fail=False),
                dev_bound=3 if q else 4, max_depth=150))
    S.append(mk("stranger-on-S-listener", dict(s_listens=True, strangers=[("otherkey", "S-listener")], chunking="whole", conn_fail=False, **L),
                max_depth=100, max_states=800000))
    S.append(mk("stranger-timers-dev", dict(r_listens=True, strangers=[("partial", "R-listener")], chunking="whole", conn_fail=False),
                dev_bound=3 if q else 4, max_depth=150))
    S.append(mk("lose1-both-listen", dict(r_listens=True, s_listens=True, chunking="whole", conn_fail=False, lose=1), dev_bound=2 if q else 3, max_depth=150))
    if True:
        S.append(mk("two-strangers", dict(r_listens=True, strangers=[("otherkey", "R-listener"), ("partial", "hint-for-S")], chunking="whole",
                                          conn_fail=False, **L), max_depth=120, max_states=3000000))
        S.append(mk("all-three-paths", dict(r_listens=True, s_listens=True, relay=True, chunking="whole", conn_fail=False, **L), max_depth=150, max_states=3000000))
        S.append(mk("both-listen-race-timers", dict(r_listens=True, s_listens=True, chunking="whole", conn_fail=False), max_depth=100,
                    max_states=200000 if q else 3000000))
    return S


def run(chk):
    chk.assumptions += [
        "TCP modelled as per-direction byte queues; connection establishment, delivery (whole buffers / line-and-first-byte cuts), graceful close per end, abortive loss and timer expiry are explicit events; time is abstract but ordered (one global clock)",
        "the relay is a 40-line harness model of magic-wormhole-transit-relay pairing by token; strangers are scripted byte strings",
        "TimeoutMixin's callLater seam is routed to the owner's simulated reactor; ipaddrs/allocate_tcp_port/time.time are constants",
    ]
    for sc in scenarios(chk.tier):
        if getattr(chk, "only", None) and chk.only not in sc.name:
            continue
        res = explore(sc, log=chk.log if os.environ.get("VERIF_VERBOSE") else None)
        chk.add_result(res)


def replay(body):
    for sc in scenarios(body.get("tier", "quick")):
        if sc.name == body["scenario"]:
            w, v = run_linear(sc.factory, [tuple(e) for e in body["events"]])
            print("outcome:", w.outcome())
            for x in v:
                print("VIOLATION-REPLAYED oracle=%s sig=%s: %s" % (x["oracle"], x["sig"], x["msg"]))
            return 1 if v else 0
    return 2
