"""C15 - dilation back-pressure pauses every producer and never loses a wake-up."""
import os

from twisted.internet.interfaces import IPushProducer, IPullProducer
from zope.interface import implementer

from ..core.explore import Scenario, explore, run_linear
from ..env.dilation import DilationWorld
from ..env.patches import CTX

LEVEL = "model_checking"


def seed():
    return int(os.environ.get("VERIF_SEED", "0") or 0)


@implementer(IPushProducer)
class PushP:
    def __init__(self, w, side, ci, write_on_resume, unreg_other=None):
        self.w, self.side, self.ci, self.wor = w, side, ci, write_on_resume
        self.unreg_other = unreg_other      # during its own turn this producer's application unregisters that other producer
        self.calls = []
        self.writes = 0
        self.registered = True
        self.reg_at = len(w.model[side]["turns"])

    def pauseProducing(self):
        self.calls.append("pause")

    def resumeProducing(self):
        self.calls.append("resume")
        self.w.model[self.side]["turns"].append(("push", self.ci))
        if self.unreg_other is not None:
            o = self.w.prod[self.side].get(self.unreg_other)
            if o is not None and o.registered:
                o.registered = False
                self.w.sides[self.side].chans[self.unreg_other].transport.unregisterProducer()
        if self.wor and self.writes < 3:
            self.writes += 1
            self.w.sides[self.side].chans[self.ci].transport.write(b"P%d" % self.ci)

    def stopProducing(self):
        self.calls.append("stop")


@implementer(IPullProducer)
class PullP:
    def __init__(self, w, side, ci, chunks):
        self.w, self.side, self.ci, self.chunks = w, side, ci, chunks
        self.calls = []
        self.pulled_while_paused = 0
        self.n = 0
        self.registered = True

    def resumeProducing(self):
        m = self.w.model[self.side]
        self.calls.append("pull")
        m["turns"].append(("pull", self.ci))
        if m["paused"]:
            self.pulled_while_paused += 1
        self.n += 1
        t = self.w.sides[self.side].chans[self.ci].transport
        t.write(b"L%d.%d" % (self.ci, self.n))
        if self.n >= self.chunks:
            self.registered = False
            t.unregisterProducer()

    def stopProducing(self):
        self.calls.append("stop")


def post_init(w):
    # reference model per side: is the aggregate (Outbound) paused?  which subchannels did the app pause?
    w.model = {i: dict(paused=True, turns=[], app_paused=set(), tcycles=w.cfg.get("tcycles", 2), arms=w.cfg.get("arms", 1),
                       arms_pr=w.cfg.get("arms_pr", 0)) for i in (0, 1)}
    w.prod = {0: {}, 1: {}}


def conn_transport(w, i):
    c = w.sides[i].manager._connection
    return c.transport if c is not None else None


def sync_model(w):
    """connection presence drives the model: no connection => paused; a fresh connection starts un-paused"""
    for i in (0, 1):
        t = conn_transport(w, i)
        m = w.model[i]
        cur = t.link.idx if t is not None else None
        if m.get("conn") != cur:
            m["conn"] = cur
            m["paused"] = t is None
            if t is not None and getattr(t, "bp_hook", False):
                # (back-pressure scenarios) this transport may already have pushed back during the replay of the backlog
                m["paused"] = bool(getattr(t, "told_paused", False))
                continue
            if t is not None:
                t.told_paused = False

                def on_write(tr, data, i=i):
                    if getattr(tr, "armed", False) == "pr" and tr.producer is not None and not tr.told_paused:
                        # the buffer fills and drains within this very write: pause and resume both arrive inside the turn
                        tr.armed = False
                        tr.producer.pauseProducing()
                        tr.producer.resumeProducing()
                        return
                    if getattr(tr, "armed", False) and tr.producer is not None:
                        tr.armed = False
                        tr.told_paused = True
                        w.model[i]["paused"] = True
                        tr.producer.pauseProducing()
                t.on_write = on_write


def bp_post_init(w):
    """replacement connections push back at the first write made on them (the replay of the un-acked backlog), budgeted"""
    post_init(w)
    w.bp_left = w.cfg.get("bp", 1)

    def on_new_link(link):
        if len(w.net.links) <= 1:
            return
        for end in link.ends:
            t = end.transport
            t.bp_hook = True
            t.told_paused = False

            def on_write(tr, data):
                if getattr(tr, "armed", False) and tr.producer is not None:
                    tr.armed = False
                    tr.told_paused = True
                    for i in (0, 1):
                        if w.sides[i].manager._outbound is tr.producer:
                            w.model[i]["paused"] = True
                    tr.producer.pauseProducing()
                    return
                if tr.producer is not None and w.bp_left > 0 and not tr.told_paused:
                    w.bp_left -= 1
                    tr.told_paused = True
                    for i in (0, 1):
                        if w.sides[i].manager._outbound is tr.producer:
                            w.model[i]["paused"] = True
                    tr.producer.pauseProducing()
            t.on_write = on_write
    w.net.on_new_link = on_new_link


def extra_events(w):
    sync_model(w)
    evs = []
    for i in (0, 1):
        if i not in w.cfg.get("tsides", (0,)):
            continue
        t = conn_transport(w, i)
        m = w.model[i]
        if t is not None and t.producer is not None and not t.closed:
            if not getattr(t, "told_paused", False):
                if m["tcycles"] > 0:
                    evs.append(("tpause", i))
                if m["arms"] > 0 and not getattr(t, "armed", False):
                    evs.append(("arm", i))
            else:
                evs.append(("tresume", i))
            if m["arms_pr"] > 0 and not getattr(t, "armed", False):
                evs.append(("armpr", i))
    return evs


def extra_apply(w, ev):
    k = ev[0]
    if k not in ("tpause", "tresume", "arm", "armpr"):
        return False
    i = ev[1]
    t = conn_transport(w, i)
    m = w.model[i]
    CTX.client = "d%d" % i
    if k == "tpause":
        m["tcycles"] -= 1
        t.told_paused = True
        m["paused"] = True
        w._guard("transport.pause", t.producer.pauseProducing)
    elif k == "tresume":
        t.told_paused = False
        m["paused"] = False
        w._guard("transport.resume", t.producer.resumeProducing)
    elif k == "armpr":
        m["arms_pr"] -= 1
        t.armed = "pr"
    else:
        m["arms"] -= 1
        t.armed = True
    return True


def app_hook(w, s, op):
    k = op[0]
    if k == "reg_push":
        p = PushP(w, s.i, op[1], op[2] if len(op) > 2 else False, op[3] if len(op) > 3 else None)
        w.prod[s.i][op[1]] = p
        s.producers.append(p)
        s.chans[op[1]].transport.registerProducer(p, True)
    elif k == "reg_pull":
        p = PullP(w, s.i, op[1], op[2] if len(op) > 2 else 2)
        w.prod[s.i][op[1]] = p
        s.producers.append(p)
        s.chans[op[1]].transport.registerProducer(p, False)
    elif k == "unreg":
        p = w.prod[s.i].get(op[1])
        if p is not None:
            p.registered = False
        s.chans[op[1]].transport.unregisterProducer()
    elif k == "pause":
        w.model[s.i]["app_paused"].add(op[1])
        s.chans[op[1]].transport.pauseProducing()
    elif k == "resume":
        w.model[s.i]["app_paused"].discard(op[1])
        s.chans[op[1]].transport.resumeProducing()
    elif k == "stop":
        w.model[s.i]["app_paused"].discard(op[1])
        s.chans[op[1]].transport.stopProducing()
    else:
        return False
    return True


def guard(w, s, op):
    k = op[0]
    if k in ("reg_push", "reg_pull", "unreg", "pause", "resume", "stop"):
        return len(s.chans) > op[1] and s.chans[op[1]].transport is not None
    return None


def mon(w):
    sync_model(w)
    for (tname, msg, site) in w.errors:
        w.flag("no-exception", "%s@%s" % (tname, site), "exception %s at %s: %s" % (tname, site, msg))
    for s_ in w.sides:
        for (k, arg, tname) in s_.api_errors:
            w.flag("no-exception", "%s:%s" % (k, tname), "side %d: %s(%r) raised %s" % (s_.i, k, arg, tname))
    for i in (0, 1):
        m = w.model[i]
        s = w.sides[i]
        closed = set(ci for ci, p in enumerate(s.chans) if ("lost",) in p.log)
        locally_closed = set(op[1] for ti, t in enumerate(s.threads) for op in t[:s.pc[ti]] if op[0] == "close")
        for ci, p in w.prod[i].items():
            if not p.registered or ci in closed:
                continue
            if isinstance(p, PushP):
                last = [c for c in p.calls if c in ("pause", "resume")]
                last = last[-1] if last else None
                if m["paused"] and last != "pause":
                    w.flag("all-paused", "push-%s" % last,
                           "side %d: the connection is paused / absent but push producer on subchannel %d was last told %r (calls %r)" % (i, ci, last, p.calls))
                if not m["paused"] and last == "pause":
                    w.flag("all-resumed", "push",
                           "side %d: the connection is writable again but push producer on subchannel %d is still paused (calls %r)" % (i, ci, p.calls))
            else:
                if p.pulled_while_paused:
                    w.flag("all-paused", "pull", "side %d: pull producer on subchannel %d was pulled %d times while the connection was paused" % (
                        i, ci, p.pulled_while_paused))
        # fairness: between two turns of one producer every other producer that was waiting had a turn
        turns = [t for t in m["turns"]]
        if w.cfg.get("fairness"):
            live = [ci for ci, p in w.prod[i].items() if p.registered and isinstance(p, PushP)]
            idx = [k for k, (kind, ci) in enumerate(turns) if kind == "push" and ci in live]
            seq = [turns[k][1] for k in idx]
            for a in range(len(seq)):
                for b in range(a + 1, len(seq)):
                    if seq[b] == seq[a]:
                        between = set(seq[a + 1:b])
                        # only producers that were already registered (and so waiting) at the first of the two turns
                        missing = [x for x in live if x != seq[a] and x not in between and w.prod[i][x].reg_at <= idx[a]]
                        if missing:
                            w.flag("fairness", "skipped", "side %d: producer %d got two turns (%r) while producer(s) %r got none in between" % (
                                i, seq[a], seq, missing))
                        break
        # inbound: reads paused iff some subchannel asked for it
        t = conn_transport(w, i)
        if t is not None and not t.closed:
            want = bool(m["app_paused"] - closed)
            if t.reading_paused != want:
                w.flag("inbound-pause", "reads-%s" % ("not-paused" if want else "paused"),
                       "side %d: subchannels paused by the application: %r, but the connection's reads are %s" % (
                           i, sorted(m["app_paused"] - closed), "paused" if t.reading_paused else "not paused"))


def fin(w):
    out = []
    for i in (0, 1):
        m = w.model[i]
        for ci, p in w.prod[i].items():
            if isinstance(p, PullP) and p.registered and not m["paused"] and ("lost",) not in w.sides[i].chans[ci].log:
                out.append(dict(oracle="all-resumed", sig="pull-starved", msg="side %d: quiescent and writable, pull producer %d made %d of %d pulls" % (i, ci, p.n, p.chunks)))
    return out


def mk(name, threads, **kw):
    scn_kw = {k: kw.pop(k) for k in ("max_depth", "max_states", "dev_bound") if k in kw}
    cfg = dict(explored=("app", "tpause", "tresume", "arm", "armpr", "lose"), chunking="whole", no_timer=True, threads=threads,
               monitors=[mon], final_monitors=[fin], post_init=post_init, extra_events=extra_events, extra_apply=extra_apply,
               app_hook=app_hook, op_guard=guard, extra_state=lambda w: (w.model, [(type(p).__name__, p.ci, p.calls, p.registered) for i in (0, 1) for p in w.prod[i].values()]))
    cfg.update(kw)
    s = seed()

    def factory():
        w = DilationWorld(cfg, s)
        return w
    return Scenario(name, factory, **scn_kw)


def scenarios(tier):
    q = tier == "quick"
    S = []
    opens = [("open", "p"), ("open", "p"), ("open", "p")]
    def thr(t0):
        return {0: t0, 1: [[("listen", "p")]]}
    # outbound: push producers, transport pause/resume cycles, re-entrant pause inside a producer's write
    S.append(mk("push-two-tcycles", thr([opens[:2], [("reg_push", 0, True)], [("reg_push", 1, True), ("unreg", 1)]]),
                tcycles=2, arms=1, max_depth=60, max_states=600000))
    S.append(mk("push-three-fairness", thr([opens, [("reg_push", 0, True)], [("reg_push", 1, True)], [("reg_push", 2, True)]]),
                tcycles=1, arms=3, fairness=True, dev_bound=3 if q else 4, max_depth=80))
    S.append(mk("push-pull-close", thr([opens[:2], [("reg_push", 0, False)], [("reg_pull", 1, 2)], [("close", 0)]]),
                tcycles=2, arms=1, max_depth=60, max_states=600000))
    S.append(mk("push-reconnect", thr([opens[:2], [("reg_push", 0, True)], [("reg_push", 1, False)]]),
                tcycles=1, arms=1, lose=1, dev_bound=3 if q else 4, max_depth=100))
    # a transport whose buffer fills and drains within one write: pauseProducing and resumeProducing both arrive inside the turn of
    # the producer that is writing (while Outbound.resumeProducing is handing out turns, or during a plain application write)
    S.append(mk("push-pause-resume-inside-turn", thr([opens, [("reg_push", 0, True)], [("reg_push", 1, True)], [("reg_push", 2, False)]]),
                tcycles=1, arms=0, arms_pr=2, max_depth=80, max_states=600000))
    S.append(mk("push-pull-pause-resume-inside-turn", thr([opens[:2], [("reg_push", 0, True)], [("reg_pull", 1, 2)], [("write", 0, b"w")]]),
                tcycles=1, arms=1, arms_pr=1, max_depth=80, max_states=600000))
    # inside its own turn a producer's application unregisters another producer that is still waiting for its turn (or has had it)
    S.append(mk("push-unregister-other-inside-turn", thr([opens, [("reg_push", 0, True, 1)], [("reg_push", 1, True)], [("reg_push", 2, True, 0)]]),
                tcycles=2, arms=1, max_depth=80, max_states=600000))
    # inbound: application pause/resume/stop of subchannels, carried over to a replacement connection
    S.append(mk("inbound-pause-resume", thr([opens[:2], [("pause", 0), ("resume", 0)], [("pause", 1), ("stop", 1)]]),
                tcycles=0, arms=0, max_depth=60, max_states=600000))
    S.append(mk("inbound-pause-reconnect", thr([opens[:2], [("pause", 0), ("resume", 0)], [("pause", 1)]]),
                tcycles=0, arms=0, lose=1, max_depth=80, max_states=600000))
    # the same with an observable outage: the replacement connection is established only when the explorer says so, so the
    # application can pause / resume / stop (and register producers) while there is no connection at all
    S.append(mk("inbound-ops-during-outage", thr([opens[:2], [("pause", 0), ("resume", 0)], [("pause", 1), ("stop", 1)]]),
                tcycles=0, arms=0, lose=1, explored=("app", "tpause", "tresume", "arm", "lose", "conn_ok"), max_depth=80, max_states=600000))
    S.append(mk("producers-during-outage", thr([opens[:2], [("reg_push", 0, True)], [("reg_pull", 1, 2)]]),
                tcycles=1, arms=1, lose=1, explored=("app", "tpause", "tresume", "arm", "lose", "conn_ok"), dev_bound=3 if q else 4, max_depth=100))
    # un-acked records + registered producers + a replacement connection that pushes back while the backlog is replayed
    S.append(mk("backlog-replay-backpressure-dev", thr([opens[:2], [("write", 0, b"u1"), ("write", 0, b"u2")], [("reg_push", 1, True)], [("reg_pull", 0, 2)]]),
                tcycles=0, arms=0, lose=1, bp=1, app_first=True, post_init=bp_post_init,
                explored=("app", "deliver", "tresume", "lose"), dev_bound=3 if q else 4, max_depth=120,
                extra_state=lambda w: (w.model, w.bp_left, [(type(p).__name__, p.ci, p.calls, p.registered) for i in (0, 1) for p in w.prod[i].values()])))
    if not q:
        S.append(mk("push-three-fairness-bfs", thr([opens, [("reg_push", 0, True)], [("reg_push", 1, True)], [("reg_push", 2, True)]]),
                    tcycles=1, arms=2, fairness=True, max_depth=80, max_states=3000000))
        S.append(mk("push-pull-reconnect", thr([opens[:2], [("reg_push", 0, True)], [("reg_pull", 1, 3)], [("close", 1)]]),
                    tcycles=2, arms=1, lose=1, dev_bound=4, max_depth=120))
    return S


def run(chk):
    chk.assumptions += [
        "record delivery, eventual-queue turns, the mailbox and the reconnection dance are eager here; explored: producer registration / "
        "unregistration / subchannel close / application pause-resume-stop, the transport's pauseProducing / resumeProducing signals (also raised "
        "synchronously inside a producer's write), connection loss",
        "scripted producers record what they are told; push producers may write inside resumeProducing",
    ]
    for sc in scenarios(chk.tier):
        if getattr(chk, "only", None) and chk.only not in sc.name:
            continue
        res = explore(sc, log=chk.log if os.environ.get("VERIF_VERBOSE") else None)
        chk.add_result(res)


def replay(body):
    for sc in scenarios(body.get("tier", "quick")):
        if sc.name == body["scenario"]:
            w, v = run_linear(sc.factory, [tuple(e) for e in body["events"]])
            for i in (0, 1):
                print("side", i, "model", w.model[i], [(type(p).__name__, p.ci, p.calls) for p in w.prod[i].values()])
            print("errors", w.errors)
            for x in v:
                print("VIOLATION-REPLAYED oracle=%s sig=%s: %s" % (x["oracle"], x["sig"], x["msg"]))
            return 1 if v else 0
    return 2
