"""C16 - the Leader replaces a silent peer connection and never drops a responsive one."""
import os

from ..core.explore import Scenario, explore, run_linear
from ..env.dilation import DilationWorld
from ..env.patches import CTX

LEVEL = "model_checking"
EPS = 1e-6


def seed():
    return int(os.environ.get("VERIF_SEED", "0") or 0)


def post_init(w):
    w.g = dict(pings=[], silent_at=None, disconnects=[], gens=0, ticks=0)   # pings: [id, t_sent, t_answered or None, link idx]
    L = w.sides[0].manager
    orig_send = L.send_ping
    orig_pong = L.handle_pong
    orig_sig = L._signal_reconnect

    def send_ping(ping_id, on_pong=None):
        c = L._connection
        # (the very first ping of a connection is issued before Manager._connection is set and is not transmitted)
        w.g["pings"].append([bytes(ping_id), w.now, None, c.transport.link.idx if c is not None else None])
        return orig_send(ping_id, on_pong)

    def handle_pong(ping_id):
        for p in w.g["pings"]:
            if p[0] == bytes(ping_id) and p[2] is None:
                p[2] = w.now
        return orig_pong(ping_id)

    def signal():
        c = L._connection
        w.g["disconnects"].append((w.now, c.transport.link.idx if c is not None else None))
        return orig_sig()
    L.send_ping, L.handle_pong, L._signal_reconnect = send_ping, handle_pong, signal
    # the TrafficTimer captured the bound methods at construction time; it does not exist yet (created on first connection)


def interval(w):
    return float(w.cfg["ping_interval"])


def tick_len(w):
    """time advances in steps of interval / tick_frac (2: pongs arrive at once or half an interval late; 4: also a quarter / three quarters)"""
    return interval(w) / float(w.cfg.get("tick_frac", 2))


def outstanding_age(w):
    """age of the oldest unanswered ping on the connection in use (None if none)"""
    c = w.sides[0].manager._connection
    if c is None:
        return None
    ages = [w.now - p[1] for p in w.g["pings"] if p[2] is None and p[3] == c.transport.link.idx]
    return max(ages) if ages else None


def extra_events(w):
    evs = []
    I = interval(w)
    calls = [s.reactor.calls[0].getTime() - s.reactor.seconds() for s in w.sides if s.reactor.calls]
    nxt = min(calls) if calls else None
    mode = w.cfg["mode"]
    responsive_ok = True
    c_now = w.sides[0].manager._connection
    healed = (mode == "blackhole" and w.g["silent_at"] is not None and c_now is not None
              and c_now.transport.link.idx > w.g.get("silent_maxlink", -1))
    if mode == "responsive" or (mode in ("silent", "blackhole") and w.g["silent_at"] is None) or healed:
        # the peer answers every ping in less than one interval: time may not advance (by half an interval) while a ping
        # has already been outstanding for half an interval
        age = outstanding_age(w)
        T = tick_len(w)
        if age is not None and age >= I - T - EPS:
            responsive_ok = False
    T = tick_len(w)
    if nxt is not None and responsive_ok and w.g["ticks"] < w.cfg.get("max_ticks", 12):
        if nxt > T + EPS:
            evs.append(("tick",))
        else:
            evs.append(("expire",))
    if mode in ("silent", "blackhole") and w.g["silent_at"] is None and w.sides[0].manager._connection is not None:
        evs.append(("silence",))
    if w.cfg.get("stops") and w.g.get("stopped_at") is None:
        evs.append(("stop",))
    return evs


def extra_apply(w, ev):
    k = ev[0]
    I = interval(w)
    if k == "tick":
        w.g["ticks"] += 1
        w.now += tick_len(w)
        for s in w.sides:
            s.reactor.rightNow += tick_len(w)
        return True
    if k == "expire":
        w.g["ticks"] += 1
        w._do(("timer",))
        return True
    if k == "stop":
        # the application closes the wormhole: Terminator -> Dilator.stop() on the Leader
        w.g["stopped_at"] = w.now
        w.g["pings_at_stop"] = len(w.g["pings"])
        w.g["disconnects_at_stop"] = len(w.g["disconnects"])
        w._guard("stop", w.sides[0].dilator.stop)
        return True
    if k == "silence":
        w.g["silent_at"] = w.now
        # "blackhole" regime: only the connections that exist now go silent (a dead path); later ones work
        w.g["silent_maxlink"] = len(w.net.links) - 1
        w.g["silent_link"] = w.sides[0].manager._connection.transport.link.idx
        return True
    return False


def losable(w, link):
    return any(s.manager._connection is not None and s.manager._connection.transport.link is link for s in w.sides)


def deliver_guard(w):
    pass


def mon(w):
    I = interval(w)
    g = w.g
    for (tname, msg, site) in w.errors:
        w.flag("no-exception", "%s@%s" % (tname, site), "exception %s at %s: %s" % (tname, site, msg))
    for (tname, msg, site) in w.__dict__.get("swallowed", ()):
        if site.startswith("manager.py") and not any(e[0] == tname for e in w.errors):
            w.flag("no-exception", "in-callback:%s@%s" % (tname, site), "%s raised inside a Deferred callback at %s: %s" % (tname, site, msg))
    if g.get("stopped_at") is not None:
        # monitoring stops when dilation is stopped: no ping, no monitor-initiated disconnect afterwards
        if len(g["pings"]) > g["pings_at_stop"]:
            w.flag("monitor-lifecycle", "ping-after-stop", "dilation was stopped at t=%.3f but the monitor sent a ping at t=%.3f" % (
                g["stopped_at"], g["pings"][-1][1]))
        if len(g["disconnects"]) > g["disconnects_at_stop"]:
            w.flag("monitor-lifecycle", "disconnect-after-stop", "dilation was stopped at t=%.3f but the monitor signalled a reconnect at t=%.3f" % (
                g["stopped_at"], g["disconnects"][-1][0]))
        return
    if w.cfg["mode"] == "responsive" and g["disconnects"]:
        w.flag("never-drop-responsive", "dropped", "every ping was answered in under one interval, but the monitor disconnected at t=%r; pings %r" % (
            g["disconnects"], [(round(p[1], 3), None if p[2] is None else round(p[2], 3)) for p in g["pings"]]))
    if g["silent_at"] is not None:
        # reference: the last answered ping on the connection that went silent
        link = [p[3] for p in g["pings"]][-1] if g["pings"] else None
        if w.cfg["mode"] == "blackhole":
            link = g["silent_link"]
        answered = [p for p in g["pings"] if p[2] is not None and p[3] == link]
        t_last = max([p[1] for p in answered]) if answered else min([p[1] for p in g["pings"] if p[3] == link] or [g["silent_at"]])
        dropped = [t for (t, l) in g["disconnects"] if l == link]
        deadline = t_last + 3 * I
        if dropped:
            if dropped[0] - t_last >= 3 * I - EPS:
                w.flag("replace-silent", "late", "peer silent; last answered ping sent at t=%.3f, monitor disconnected at t=%.3f = %.2f intervals later (must be < 3)" % (
                    t_last, dropped[0], (dropped[0] - t_last) / I))
        elif w.now >= deadline - EPS and w.sides[0].manager._connection is not None and w.sides[0].manager._connection.transport.link.idx == link:
            w.flag("replace-silent", "not-dropped", "peer silent; last answered ping sent at t=%.3f, now t=%.3f (%.2f intervals) and the connection is still in use" % (
                t_last, w.now, (w.now - t_last) / I))
    # monitoring stops with the connection
    L = w.sides[0].manager
    # ... and the dropped connection is replaced: once the transport has reported the loss and every eventual turn has run,
    # the Leader must have let go of it (and asked for a new generation)
    if L._connection is not None and L._connection.transport.closed and not any(s.reactor.due() for s in w.sides):
        w.flag("replace-silent", "stuck-on-dead-connection:%s" % w.mstate(0),
               "the connection in use (link %d) is closed and all turns have run, but the Leader's Manager still holds it in state %s: "
               "no new generation was started" % (L._connection.transport.link.idx, w.mstate(0)))
    if L._connection is None and L._timer is not None:
        w.flag("monitor-lifecycle", "timer-without-connection", "no connection in use but the ping timer is still pending")
    if L._connection is not None and L._traffic is not None and L._timer is None:
        w.flag("monitor-lifecycle", "no-timer-with-connection", "a connection is in use but no ping timer is pending (monitoring did not resume)")
    # a connection that both ends have selected and that is still open must be monitored by the Leader
    from ..core import canon as _canon
    from ..env.dilation import dconnection as _dc
    for (l, sd, p) in w.protos(0):
        if _canon.machine_state(p, _dc.DilatedConnectionProtocol.m) == "selected" and not any(e.transport.closed or e.transport.disconnecting for e in l.ends) \
                and not l.broken:
            if L._connection is not p or L._timer is None:
                w.flag("monitor-lifecycle", "selected-connection-not-monitored",
                       "the Leader selected link %d (open) but is not monitoring it: Manager._connection %s, timer %s, manager state %s; logged %r" % (
                           l.idx, "set" if L._connection is p else "not this one", "pending" if L._timer else "none", w.mstate(0), w.logged[-1:]))


def fin(w):
    out = []
    g = w.g
    if g["silent_at"] is not None and w.cfg["mode"] == "blackhole":
        # the dead path was given up: a new generation must have produced a working, monitored connection
        if [t for (t, l) in g["disconnects"] if l == g["silent_link"]]:
            st = (w.mstate(0), w.mstate(1))
            c = w.sides[0].manager._connection
            if st != ("CONNECTED", "CONNECTED") or c is None or c.transport.link.idx <= g["silent_maxlink"]:
                out.append(dict(oracle="replace-silent", sig="no-new-connection:%s/%s" % st,
                                msg="the silent connection was dropped and later connections work, but at quiescence the managers are %s / %s "
                                    "(errors %r, logged %r)" % (st[0], st[1], w.errors, w.logged[-2:])))
        return out
    if g["silent_at"] is not None:
        link = [p[3] for p in g["pings"]][-1] if g["pings"] else None
        c = w.sides[0].manager._connection
        still = c is not None and c.transport.link.idx == link and not c.transport.closed
        if still and not [t for (t, l) in g["disconnects"] if l == link] and w.g["ticks"] < w.cfg.get("max_ticks", 12):
            out.append(dict(oracle="replace-silent", sig="never", msg="peer silent, no timers left, connection never dropped"))
    return out


def mk(name, mode, I, **kw):
    scn_kw = {k: kw.pop(k) for k in ("max_depth", "max_states", "dev_bound") if k in kw}
    cfg = dict(explored=("deliver", "lose", "tick", "expire", "silence"), chunking="whole", no_timer=True, ping_interval=I, mode=mode,
               monitors=[mon], final_monitors=[fin], post_init=post_init, extra_events=extra_events, extra_apply=extra_apply,
               losable=losable, extra_state=lambda w: w.g, threads={})
    cfg.update(kw)
    # while the peer is silent nothing is delivered any more
    s = seed()

    def factory():
        w = DilationWorld(cfg, s)
        orig = w._all_enabled

        def all_enabled():
            evs = orig()
            if w.g["silent_at"] is not None:
                if w.cfg["mode"] == "blackhole":
                    evs = [e for e in evs if e[0] != "deliver" or e[1] > w.g["silent_maxlink"]]
                else:
                    evs = [e for e in evs if e[0] != "deliver"]
            return evs
        w._all_enabled = all_enabled
        return w
    return Scenario(name, factory, **scn_kw)


def scenarios(tier):
    q = tier == "quick"
    S = []
    for I in (1.0, 30.0):
        S.append(mk("responsive-I%g" % I, "responsive", I, max_ticks=8 if q else 12, max_depth=40 if q else 60, max_states=400000))
        S.append(mk("silent-I%g" % I, "silent", I, max_ticks=14 if q else 18, max_depth=40 if q else 60, max_states=400000))
    # only the path in use goes dead; the replacement connection works and must be adopted and monitored
    S.append(mk("blackhole-I1-dev", "blackhole", 1.0, max_ticks=12 if q else 16, dev_bound=3 if q else 4, max_depth=80))
    # dilation is stopped (wormhole closed) at any moment; the transport's close may linger while time passes
    S.append(mk("responsive-stop-I1", "responsive", 1.0, stops=True, max_ticks=8, max_depth=60, max_states=400000,
                explored=("deliver", "lose", "tick", "expire", "silence", "stop", "close")))
    S.append(mk("responsive-lose1-I1", "responsive", 1.0, lose=1, lose_both=True, max_ticks=8, dev_bound=3 if q else 4, max_depth=80))
    # finer time: pongs that arrive a quarter, a half or three quarters of an interval after their ping
    S.append(mk("responsive-I1-quarters", "responsive", 1.0, tick_frac=4, max_ticks=13 if q else 24, max_depth=60 if q else 90, max_states=400000))
    if not q:
        S.append(mk("silent-I1-quarters", "silent", 1.0, tick_frac=4, max_ticks=20 if q else 28, max_depth=70 if q else 100, max_states=400000))
    # three generations: two plain losses of a responsive connection (bookkeeping that accumulates across generations)
    S.append(mk("responsive-lose2-I1-dev", "responsive", 1.0, lose=2, lose_both=True, max_ticks=12, dev_bound=2 if q else 3, max_depth=120))
    S.append(mk("silent-lose1-I1", "silent", 1.0, lose=1, lose_both=True, max_ticks=10, dev_bound=3 if q else 4, max_depth=80))
    return S


def run(chk):
    chk.assumptions += [
        "time is explicit: it advances by half a ping interval ('tick') or to the next timer expiry ('expire'); in the responsive regime time may "
        "not advance while a ping has been unanswered for half an interval, i.e. every pong arrives in less than one interval; 'silence' stops all "
        "deliveries from then on",
        "the Leader's send_ping / handle_pong / _signal_reconnect are wrapped on the instance to timestamp pings, pongs and disconnects",
        "runs are bounded by a tick budget (reported as a cap): monitoring never terminates by itself",
    ]
    for sc in scenarios(chk.tier):
        if getattr(chk, "only", None) and chk.only not in sc.name:
            continue
        res = explore(sc, log=chk.log if os.environ.get("VERIF_VERBOSE") else None)
        chk.add_result(res)
    # the tick budget is a horizon, not a truncation of a finite space
    chk.caps = [c for c in chk.caps]


def replay(body):
    for sc in scenarios(body.get("tier", "quick")):
        if sc.name == body["scenario"]:
            w, v = run_linear(sc.factory, [tuple(e) for e in body["events"]])
            print("t=%.3f" % w.now, "pings (sent, answered):", [(round(p[1], 3), p[2]) for p in w.g["pings"]], "disconnects", w.g["disconnects"])
            for x in v:
                print("VIOLATION-REPLAYED oracle=%s sig=%s: %s" % (x["oracle"], x["sig"], x["msg"]))
            return 1 if v else 0
    return 2
