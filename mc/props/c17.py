"""C17 - dilation never blocks shutdown; an incapable peer is reported, not awaited."""
import os

from ..core import canon
from ..env import dilation as _dil      # noqa: F401  (installs the Noise entropy / make_side / ordered-set seams)
from ..env.mailbox import PEER_HOSTS
from .w1common import CODE, mk, run_scenarios, replay as _replay, W1_ASSUMPTIONS

LEVEL = "model_checking"


def mstate(c):
    m = c.boss._D._manager
    return canon.machine_state(m, type(m).m) if m is not None else None


def mon(w):
    for rec in w.escaped:
        if rec[0].startswith("net."):
            continue      # an exception inside a peer connection's dataReceived: Twisted logs it and drops that connection
        w.flag("no-exception", "%s@%s" % (rec[2], rec[4]), "%s escaped %s: %s" % (rec[2], rec[0], rec[3]))
    for c in w.clients:
        if c.app.closed > 1:
            w.flag("closed-once", "c%d" % c.ci, "client %d closed %d times" % (c.ci, c.app.closed))
        # cover: remember every Manager state in which close() was issued
    # "listeners, pending attempts ... are shut down and the closed notification fires": in every state in which the application has
    # been told closed, the closed side owns no listening port and no connection attempt that is still in flight (an attempt
    # that nobody answers would otherwise stay pending for ever; at quiescence it has always been answered)
    for c in w.clients:
        if c.app.closed >= 1 and w.net is not None:
            host = PEER_HOSTS[c.ci]
            for a in w.net.attempts:
                if a.reactor.name == host and a.state == "connecting":
                    w.flag("resources-freed", "pending-attempt-at-closed",
                           "client %d has been told closed but its connection attempt to %s:%d is still in flight" % (c.ci, a.host, a.port))
            for (h, p), port in w.net.listeners.items():
                if h == host and port.listening:
                    w.flag("resources-freed", "listener-at-closed", "client %d has been told closed but still listens on %s:%d" % (c.ci, h, p))
    cov = w.__dict__.setdefault("_close_states", set())
    for c in w.clients:
        if c.ghost["cause"] is not None and c.ghost["cause"][0] == "close" and not c.ghost.get("close_state_recorded"):
            c.ghost["close_state_recorded"] = True


def fin(w):
    out = []
    for c in w.clients:
        wants = any(s[0] == "close" for t in c.threads for s in t)
        host = PEER_HOSTS[c.ci]
        if wants and c.app.closed != 1:
            out.append(dict(oracle="close-completes", sig="c%d:%s" % (c.ci, mstate(c)),
                            msg="quiescent but client %d (Manager %s, Terminator %s) never delivered closed; obs=%r errors=%r" % (
                                c.ci, mstate(c), ",".join(canon.automat_state(c.boss._T).values()), [k for k, _ in c.app.obs], w.errors)))
            continue
        if c.app.closed == 1:
            for (h, p), port in w.net.listeners.items():
                if h == host and port.listening:
                    out.append(dict(oracle="resources-freed", sig="listener", msg="client %d is closed but still listens on %s:%d" % (c.ci, h, p)))
            for a in w.net.attempts:
                if a.reactor.name == host and a.state == "connecting":
                    out.append(dict(oracle="resources-freed", sig="pending-attempt", msg="client %d is closed but a connection attempt to %s:%d is still pending" % (c.ci, a.host, a.port)))
            for link in w.net.links:
                for e in link.ends:
                    if e.owner == host and not e.transport.closed:
                        out.append(dict(oracle="resources-freed", sig="open-connection:%s" % ("disconnecting" if e.transport.disconnecting else "open"),
                                        msg="client %d is closed but its end of link %d is still open (Manager was %s)" % (c.ci, link.idx, mstate(c))))
        if w.cfg.get("peer_cannot_dilate") and c.ci == 0:
            for i, r in enumerate(c.app.sub_results):
                if r != "OldPeerCannotDilateError" and any(k == "versions" for k, _ in c.app.obs):
                    out.append(dict(oracle="incapable-peer-reported", sig="connect:%s" % r,
                                    msg="the peer cannot dilate, but subchannel connect() #%d ended with %r (obs %r)" % (i, r, [k for k, _ in c.app.obs])))
    return out


NET = ("nconn_ok", "ndeliver", "nclose")


def guard(w, c, step):
    """legal use: code entry and dilate() come before the application's own close()"""
    if step[0] in ("set_code", "dilate"):
        if c.ghost["cause"] is not None and c.ghost["cause"][0] == "close":
            return False
    if step[0] in ("sub_connect", "sub_listen"):
        return c.app.dilated is not None
    return True


def cfg(t0, t1=None, dil1=True, fine=(0,), explored=None, **kw):
    clients = [dict(threads=t0, dilation=True, mode="deferred")]
    if t1 is not None:
        clients.append(dict(threads=t1, dilation=dil1, mode="deferred"))
    d = dict(net=True, clients=clients, explored=explored or (("down", "up", "api", "connect", "stopfin") + NET),
             coarse=[i for i in range(len(clients)) if i not in fine], monitors=[mon], final_monitors=[fin], step_guard=guard)
    d.update(kw)
    return d


def scenarios(tier):
    q = tier == "quick"
    S = []
    A = [[("set_code", CODE), ("dilate",)], [("close",)]]
    B = [[("set_code", CODE), ("dilate",)]]
    # close() at every point of the dilation life cycle of the closing side; the peer dilates and stays
    S.append(mk("pair-close0-dev", cfg(A, B, fine=(0, 1)), dev_bound=3 if q else 4, max_depth=250))
    if not q:
        S.append(mk("pair-close0-fine0-bfs", cfg(A, B), max_depth=120, max_states=1500000))
    # the peer closes too (both sides shut down, in any order)
    S.append(mk("pair-close-both-dev", cfg(A, [B[0], [("close",)]], fine=(0, 1)), dev_bound=2 if q else 4, max_depth=250))
    # with subchannel activity and eventual turns explored
    S.append(mk("pair-subchannel-turns-dev", cfg([[("set_code", CODE), ("dilate",), ("sub_connect", "p")], [("close",)]],
                                                 [[("set_code", CODE), ("dilate",), ("sub_listen", "p")], [("close",)]], fine=(0, 1),
                                                 explored=("down", "up", "api", "connect", "stopfin", "turn") + NET), dev_bound=2 if q else 3, max_depth=300))
    # close() of one side only (the peer stays), with eventual turns explored: whatever waits in the eventual queue when close()
    # arrives (e.g. the accept of a connection that has just finished its handshake), nothing stays open afterwards
    S.append(mk("pair-close0-turns-dev", cfg(A, B, fine=(0, 1), explored=("down", "up", "api", "connect", "stopfin", "turn") + NET),
                dev_bound=2 if q else 3, max_depth=300))
    S.append(mk("pair-close1-turns-dev", cfg(B, A, fine=(0, 1), explored=("down", "up", "api", "connect", "stopfin", "turn") + NET),
                dev_bound=2 if q else 3, max_depth=300))
    # peer connection lost while shutting down
    S.append(mk("pair-close0-nlose-dev", cfg(A, B, fine=(0, 1), nlose=1, explored=("down", "up", "api", "connect", "stopfin", "nlose") + NET),
                dev_bound=3 if q else 4, max_depth=250))
    # a peer link lost at any moment, with eventual turns explored: e.g. the winning connection lost in the turn between its KCM and the
    # Connector's accept, close() afterwards
    S.append(mk("pair-close0-nlose-turns-dev", cfg(A, B, fine=(0, 1), nlose=1, explored=("down", "up", "api", "connect", "stopfin", "nlose", "turn") + NET),
                dev_bound=2 if q else 3, max_depth=300))
    if not q:
        S.append(mk("pair-close1-nlose-turns-dev", cfg(B, A, fine=(0, 1), nlose=1, explored=("down", "up", "api", "connect", "stopfin", "nlose", "turn") + NET),
                    dev_bound=3, max_depth=300))
    # time passes: the Leader's ping monitor fires (ping, then "no traffic" -> reconnect) and close() lands anywhere around it
    for closer in ((0,) if q else (0, 1)):     # client 0 is the Leader (it owns the ping monitor)
        t = [A, B] if closer == 0 else [B, A]
        S.append(mk("pair-ping-timeout-close%d-dev" % closer, cfg(t[0], t[1], fine=(0, 1), ntimers=3,
                                                                 explored=("down", "up", "api", "connect", "stopfin", "ntimer") + NET),
                    dev_bound=3 if q else 4, max_depth=300))
    # peer absent: Manager stays WAITING
    S.append(mk("solo-dilate-close", cfg([[("set_code", CODE), ("dilate",), ("sub_connect", "p")], [("close",)]]), max_depth=80))
    # peer cannot dilate: connect() issued before and after the versions arrive must fail, close must complete
    S.append(mk("peer-cannot-dilate", cfg([[("set_code", CODE), ("dilate",)], [("sub_connect", "p")], [("sub_connect", "q")], [("close",)]],
                                          [[("set_code", CODE)]], dil1=False, peer_cannot_dilate=True), max_depth=120, max_states=250000 if q else 3000000))
    # the local side never calls dilate(), the peer does
    S.append(mk("only-peer-dilates", cfg([[("set_code", CODE)], [("close",)]], B, fine=(0,)), max_depth=120, max_states=250000))
    return S


def run(chk):
    chk.assumptions += W1_ASSUMPTIONS
    chk.assumptions += ["stacked world: the real Boss / Terminator / Dilator / Manager / Connector / L2 protocols of both clients, the real mailbox server "
                        "logic for the control channel and the simulated TCP network for peer connections; Noise stand-in as in C12",
                        "timers (ping monitor, relay delay) fire only in the ping-timeout scenarios, as explicit 'time passes for this client' events (at most 3 per execution)"]
    run_scenarios(chk, scenarios(chk.tier))


def replay(body):
    return _replay(body, scenarios(body.get("tier", "quick")))


def describe(w):
    for l in w.net.links:
        print(" link", l.idx, "broken" if l.broken else "", [(e.owner, "closed" if e.transport.closed else ("disc" if e.transport.disconnecting else "open"),
                                                               type(getattr(e.protocol, "_wrappedProtocol", e.protocol)).__name__) for e in l.ends],
              [len(b"".join(q)) for q in l.queues])
    for c in w.clients:
        print(" client", c.ci, "manager", mstate(c), "connector", canon.automat_state(c.boss._D._manager._connector) if c.boss._D._manager and hasattr(c.boss._D._manager, "_connector") else None)
