"""C04 - a completed transfer is byte-exact; success is never reported otherwise."""
import ast
import io
import json
import multiprocessing as mp
import os
import shutil
import tempfile

from twisted.internet import error

from ..core.explore import NPROC
from ..env.patches import CTX
from ..env.transitworld import TransitWorld, unwrap
from ..env.simnet import deliver, close_end

from wormhole.cli import cmd_send, cmd_receive
from wormhole.timing import DebugTiming
from wormhole.util import dict_to_bytes, bytes_to_dict
from wormhole import transit

LEVEL = "fault_enumeration"
SCRATCH = "/dev/shm" if os.path.isdir("/dev/shm") else None


def seed():
    return int(os.environ.get("VERIF_SEED", "0") or 0)


def content(n, salt=0):
    return bytes(((i * 131 + salt * 17 + (i >> 8)) % 256 for i in range(n)))


class A:
    pass


def mkargs(cwd, **kw):
    a = A()
    a.relay_url = "ws://x"
    a.cwd = cwd
    a.stderr = io.StringIO()
    a.stdout = io.StringIO()
    a.timing = DebugTiming()
    a.hide_progress = True
    a.output_file = None
    a.accept_file = True
    a.text = None
    a.what = None
    a.ignore_unsendable_files = False
    a.zeromode = False
    a.code = None
    a.verify = False
    a.tor = False
    a.listen = True
    a.transit_helper = None
    a.appid = None
    a.debug_state = None
    for k, v in kw.items():
        setattr(a, k, v)
    return a


class FakeW:
    def __init__(self):
        self.sent = []

    def send_message(self, b):
        self.sent.append(b)


TREES = {
    "empty-dirs": {"e1/": None, "e2/inner/": None, "f.txt": b"x"},
    "nested": {"a/b/c/deep.bin": content(300, 1), "a/b/sib.txt": b"", "top": content(17000, 2)},
    "special-contents": {"z/nul-record": b"\0" * 16384, "z/data+nul": content(16384, 3) + b"\0" * 16384, "z/nul+data": b"\0" * 300 + b"x", "ff": b"\xff" * 70},
    "unnormalised-names": {"re\u0301sume\u0301.txt": b"1", "\u212b/\u2126.bin": b"2", "\u1112\u1161\u11ab": b"3", "\ufb01le\uff0fx": b"4"},
    "odd-names": {"with space.txt": b"1", "uni-é中.txt": b"2", "-dash": b"3", ".hidden": b"4", "dir with space/-x": b"5",
                  "tab\tname": b"6"},
}
SIZES = [0, 1, 16383, 16384, 16385, 32768, 40000]
TEXTS = ["hello", "it's", 'say "hi"', "both ' and \"", "back\\slash", "new\nline", "tab\t", "\x1b[31mred\x1b[0m", "bell\x07", "nul\x00",
         "rtl‮evil", "café", "\U0001f600 emoji", " sep", "\x7f", "a" * 300, "\r\n", "\\x41", "'", '"', "\\'",
         # not in any Unicode normal form's image: decomposed accents, singletons, conjoining jamo, compatibility characters
         "Cafe\u0301", "\u212bngstro\u0308m \u2126", "\u1112\u1161\u11ab", "\ufb01 \uff0f \u2025", "e\u0301\u0323 vs e\u0323\u0301"]


# "any content": byte patterns that a storage or transport shortcut could treat specially (runs of NUL up to and across the
# 16384-byte record size, holes at the start / in the middle / at the end, 0xff runs, line endings, archive magic)
CHUNK = 16384
CONTENTS = {
    "nul-1000": b"\0" * 1000,
    "nul-record": b"\0" * CHUNK,
    "nul-record+1": b"\0" * (CHUNK + 1),
    "data+nul-record": content(CHUNK) + b"\0" * CHUNK,
    "data+nul-byte": content(CHUNK) + b"\0",
    "nul-record+data": b"\0" * CHUNK + content(100),
    "data+nul-record+data": content(CHUNK) + b"\0" * CHUNK + content(5),
    "data-ending-in-nuls": content(500) + b"\0" * 40,
    "ff-record+1": b"\xff" * (CHUNK + 1),
    "crlf": b"line1\r\nline2\nline3\r" * 50 + b"\x1a tail",
    "zip-magic": b"PK\x03\x04" + content(200) + b"PK\x05\x06" + b"\0" * 18,
    "one-byte-run": b"a" * (2 * CHUNK),
}


def make_payload(src, spec):
    kind, arg = spec
    if kind == "cfile":
        name = "payload.bin"
        with open(os.path.join(src, name), "wb") as f:
            f.write(CONTENTS[arg])
        return name
    if kind == "file":
        name = "payload.bin"
        with open(os.path.join(src, name), "wb") as f:
            f.write(content(arg))
        return name
    tree = TREES[arg]
    root = os.path.join(src, "tree")
    os.makedirs(root)
    for rel, data in tree.items():
        p = os.path.join(root, rel)
        if rel.endswith("/"):
            os.makedirs(p, exist_ok=True)
        else:
            os.makedirs(os.path.dirname(p), exist_ok=True)
            with open(p, "wb") as f:
                f.write(data)
    return "tree"


def tree_of(path):
    """(relative path -> content or None for directories)"""
    if os.path.isfile(path):
        with open(path, "rb") as f:
            return {"": f.read()}
    out = {}
    for dp, dn, fn in os.walk(path):
        for d in dn:
            out[os.path.relpath(os.path.join(dp, d), path) + "/"] = None
        for f in fn:
            with open(os.path.join(dp, f), "rb") as fh:
                out[os.path.relpath(os.path.join(dp, f), path)] = fh.read()
    return out


class Transfer:
    """real Sender._handle_answer/_send_file and Receiver._parse_offer over the W2 network"""

    def __init__(self, spec, scripted_receiver=None, reuse=None):
        self.reuse = reuse
        self.root = reuse.root if reuse else tempfile.mkdtemp(prefix="c04-", dir=SCRATCH)
        self.src = os.path.join(self.root, "src2" if reuse else "src")
        self.dst = os.path.join(self.root, "dst")
        os.makedirs(self.src)
        if not reuse:
            os.makedirs(self.dst)
        self.name = make_payload(self.src, spec)
        self.w = TransitWorld(dict(r_listens=True, conn_fail=False, chunking="whole"), seed())
        self.w.called = {"S": True, "R": True}
        CTX.world = self.w
        self.sender = cmd_send.Sender(mkargs(self.src, what=self.name), self.w.rs)
        self.sender._transit_sender = self.w.S
        self.offer, self.sender._fd_to_send = self.sender._build_offer()
        self.offer = bytes_to_dict(dict_to_bytes(self.offer))        # through JSON, as over the mailbox
        self.sres, self.rres = [], []
        self.scripted = scripted_receiver
        if scripted_receiver is None:
            self.receiver = cmd_receive.Receiver(mkargs(self.dst), self.w.rr)
            self.receiver._transit_receiver = self.w.R
            d = self.receiver._parse_offer(self.offer, FakeW())
            d.addCallbacks(lambda v: self.rres.append(("ok", None)), lambda f: self.rres.append(("fail", type(f.value).__name__)))
        else:
            self.rconn = []
            self.w.R.connect().addCallbacks(self.rconn.append, lambda f: self.rres.append(("fail", type(f.value).__name__)))
        d = self.sender._handle_answer({"file_ack": "ok"})
        d.addCallbacks(lambda v: self.sres.append(("ok", None)), lambda f: self.sres.append(("fail", type(f.value).__name__)))
        self.data_bytes = 0          # S->R bytes delivered after the handshake
        self.ack_bytes = 0

    def link(self):
        return self.w.net.links[0] if self.w.net.links else None

    def negotiated(self):
        cs = self.w.conns("S")
        return bool(cs) and cs[0][2].state == "records"

    def step(self, seg=None, data_limit=None, ack_limit=None, flip=None):
        """one default-schedule step; returns False when nothing is enabled.  S->R data delivery obeys seg/data_limit,
        flip=(offset,bit) corrupts one byte of the S->R data stream in flight."""
        w = self.w
        CTX.world = w
        en = [e for e in w._all_enabled() if e[0] not in ("lose", "conn_fail", "timer")]
        if not en:
            # the network is quiet: let time pass (handshake timeouts, connect() deadline)
            if any(e[0] == "timer" for e in w._all_enabled()) and getattr(self, "allow_timers", False):
                w._do(("timer",))
                return True
            return False
        # prefer non-delivery events, then deliveries
        ev = None
        for e in en:
            if e[0] != "deliver":
                ev = e
                break
        if ev is None:
            ev = en[0]
        if ev[0] == "deliver" and self.negotiated():
            link = w.net.links[ev[1]]
            to_side = ev[2]
            r_side = [sd for (l, sd, p) in w.conns("R")][0] if w.conns("R") else None
            n = ev[3]
            if to_side == r_side:
                if seg:
                    n = min(n, seg)
                if data_limit is not None:
                    room = data_limit - self.data_bytes
                    if room <= 0:
                        return "data-limit"
                    n = min(n, room)
                if flip is not None and self.data_bytes <= flip[0] < self.data_bytes + n:
                    q = link.queues[1 - to_side]
                    buf = bytearray(b"".join(q))
                    buf[flip[0] - self.data_bytes] ^= (1 << flip[1])
                    q.clear()
                    q.append(bytes(buf))
                self.data_bytes += n
            else:
                if ack_limit is not None:
                    room = ack_limit - self.ack_bytes
                    if room <= 0:
                        return "ack-limit"
                    n = min(n, room)
                self.ack_bytes += n
            w._do(("deliver", ev[1], to_side, n))
        else:
            w._do(ev)
        if self.scripted and self.rconn and not getattr(self, "_scripted_started", False):
            self._scripted_started = True
            self.scripted(self, self.rconn[0])
        return True

    def run(self, **kw):
        for _ in range(200000):
            r = self.step(**kw)
            if r is not True:
                return r
        raise RuntimeError("transfer does not quiesce")

    def cut(self):
        """abortive loss of the link, observed by both ends"""
        link = self.link()
        link.broken = True
        for side in (0, 1):
            try:
                close_end(link, side, error.ConnectionLost())
            except Exception as e:
                self.w.errors.append((type(e).__name__, str(e)[:80], "connectionLost"))

    def cleanup(self):
        try:
            fd = self.sender._fd_to_send
            if fd is not None and hasattr(fd, "close"):
                fd.close()
        except Exception:
            pass
        if not self.reuse:
            shutil.rmtree(self.root, ignore_errors=True)

    def dest(self):
        return os.path.join(self.dst, self.name)

    def verdict(self):
        return (self.sres[0][0] if self.sres else "pending", self.rres[0][0] if self.rres else "pending")


def honest(spec, seg):
    t = Transfer(spec)
    try:
        t.run(seg=seg)
        viol = []
        s, r = t.verdict()
        want = tree_of(os.path.join(t.src, t.name))
        if (s, r) != ("ok", "ok"):
            viol.append(dict(oracle="honest-transfer-completes", sig="%s" % (spec[0],), msg="honest transfer of %r (segments %r) ended %r / %r errors %r" % (
                spec, seg, t.sres, t.rres, t.w.errors)))
        else:
            got = tree_of(t.dest()) if os.path.exists(t.dest()) else None
            if got != want:
                diff = sorted(set(got or {}) ^ set(want)) or [k for k in want if (got or {}).get(k) != want[k]]
                viol.append(dict(oracle="byte-exact", sig="%s" % (spec[0],), msg="both sides reported success for %r but the received tree differs: %r" % (spec, diff[:5])))
        return viol, t.data_bytes, t.ack_bytes
    finally:
        t.cleanup()


def faulty(args):
    spec, kind, k, extra = args
    t = Transfer(spec)
    try:
        viol = []
        if kind == "cut-data":
            t.run(data_limit=k)
            t.cut()
            t.allow_timers = True
            t.run()
            total = extra
            s, r = t.verdict()
            if k < total:
                if s == "ok" or r == "ok":
                    viol.append(dict(oracle="no-success-on-cut", sig="cut-data", msg="%r: stream cut after %d of %d data bytes but verdicts are %r/%r" % (spec, k, total, s, r)))
                if os.path.lexists(t.dest()):
                    viol.append(dict(oracle="no-final-file", sig="cut-data", msg="%r: stream cut after %d of %d bytes but %s exists" % (spec, k, total, t.name)))
            if s == "pending" or r == "pending":
                viol.append(dict(oracle="no-hang", sig="cut-data", msg="%r cut at %d: verdicts %r/%r" % (spec, k, s, r)))
        elif kind == "flip-data":
            t.run(flip=(k, extra))
            # the corrupted side hangs up; make sure both ends see the end of the connection
            if t.link() is not None:
                t.cut()
                t.allow_timers = True
                t.run()
            s, r = t.verdict()
            if s == "ok" or r == "ok":
                viol.append(dict(oracle="no-success-on-corruption", sig="flip-data", msg="%r: bit %d of data byte %d flipped but verdicts are %r/%r" % (spec, extra, k, s, r)))
            if os.path.lexists(t.dest()):
                viol.append(dict(oracle="no-final-file", sig="flip-data", msg="%r: data byte %d corrupted but %s exists" % (spec, k, t.name)))
        elif kind == "cut-ack":
            t.run(ack_limit=k)
            t.cut()
            t.allow_timers = True
            t.run()
            s, r = t.verdict()
            if s == "ok":
                viol.append(dict(oracle="ack-required", sig="cut-ack", msg="%r: only %d ack bytes delivered but the sender reported success" % (spec, k)))
            if s == "pending":
                viol.append(dict(oracle="no-hang", sig="cut-ack", msg="%r: sender still pending" % (spec,)))
        return viol, (kind, t.verdict())
    finally:
        t.cleanup()


def retry_after_cut(args):
    """a transfer is cut in the middle; the user tries again into the same directory; the second attempt completes"""
    spec, k = args
    t1 = Transfer(spec)
    try:
        t1.run(data_limit=k)
        t1.cut()
        t1.allow_timers = True
        t1.run()
        t2 = Transfer(spec, reuse=t1)
        try:
            t2.run()
            viol = []
            s, r = t2.verdict()
            want = tree_of(os.path.join(t2.src, t2.name))
            if (s, r) != ("ok", "ok"):
                viol.append(dict(oracle="honest-transfer-completes", sig="retry", msg="retry after a cut at %d ended %r/%r" % (k, t2.sres, t2.rres),
                                 case=dict(spec=list(spec), cut=k)))
            else:
                got = tree_of(t2.dest()) if os.path.exists(t2.dest()) else None
                if got != want:
                    viol.append(dict(oracle="byte-exact", sig="retry-after-cut",
                                     msg="%r: first attempt cut after %d data bytes, second attempt reported success on both sides, but the "
                                         "received file has %s bytes instead of %s" % (spec, k, len((got or {}).get("", b"")), len(want.get("", b""))),
                                     case=dict(spec=list(spec), cut=k)))
            return viol, ("retry", t1.verdict(), t2.verdict())
        finally:
            t2.cleanup()
    finally:
        t1.cleanup()


def forged_ack(args):
    spec, variant = args
    import hashlib

    def scripted(t, rc):
        total = extra_total[0]
        got = io.BytesIO()
        h = hashlib.sha256()

        def done(n):
            real = h.hexdigest()
            ack = {"good": {"ack": "ok", "sha256": real},
                   "wrong-hash": {"ack": "ok", "sha256": hashlib.sha256(b"other").hexdigest()},
                   "ack-no": {"ack": "no", "sha256": real},
                   "empty-ack": {},
                   "truncated-hash": {"ack": "ok", "sha256": real[:-1]},
                   "upper-hash": {"ack": "ok", "sha256": real.upper()}}[variant]
            rc.send_record(dict_to_bytes(ack))
        rc.writeToFile(got, total, None, h.update).addCallback(done)
    extra_total = [spec[1] if spec[0] == "file" else None]
    t = Transfer(spec, scripted_receiver=scripted)
    try:
        t.run()
        s, _ = t.verdict()
        viol = []
        if variant == "good":
            if s != "ok":
                viol.append(dict(oracle="honest-transfer-completes", sig="scripted-good-ack", msg="good ack, sender verdict %r" % (t.sres,)))
        elif s == "ok" and variant != "upper-hash":
            viol.append(dict(oracle="ack-required", sig="forged:%s" % variant, msg="%r: receiver answered with %s ack but the sender reported success" % (spec, variant)))
        return viol, (variant, s)
    finally:
        t.cleanup()


def texts(chk):
    viol = []
    keys = set()
    n = 0
    samples = []
    for text in TEXTS:
        n += 1
        sa = mkargs("/", text=text)
        snd = cmd_send.Sender(sa, None)
        offer, fd = snd._build_offer()
        wire = bytes_to_dict(dict_to_bytes({"offer": offer}))["offer"]
        ra = mkargs("/")
        rcv = cmd_receive.Receiver(ra, None)
        w = FakeW()
        res = []
        rcv._parse_offer(wire, w).addCallbacks(lambda v: res.append("ok"), lambda f: res.append(type(f.value).__name__))
        line = ra.stdout.getvalue()
        keys.add(line)
        ok = line.endswith("\n") and line.count("\n") == 1
        body = line[:-1]
        back = None
        for q in ("'", '"'):
            try:
                v = ast.literal_eval(q + body + q)
                if v == text:
                    back = v
            except Exception:
                pass
        if res != ["ok"] or not ok or back != text:
            viol.append(dict(oracle="text-exact", sig="roundtrip", msg="text %r printed as %r (result %r)" % (text, line, res), case=text))
        if any((not c.isprintable()) for c in body):
            viol.append(dict(oracle="text-terminal-safe", sig="raw-control", msg="text %r printed with raw non-printable characters: %r" % (text, line), case=text))
        # and the sender side accepts the receiver's ack
        sres = []
        ans = bytes_to_dict(w.sent[0])["answer"] if w.sent else {}
        snd._handle_answer(ans).addCallbacks(lambda v: sres.append("ok"), lambda f: sres.append(type(f.value).__name__))
        if sres != ["ok"]:
            viol.append(dict(oracle="text-exact", sig="ack", msg="text %r: sender result %r" % (text, sres), case=text))
        if len(samples) < 3:
            samples.append(dict(text=text, printed=line))
    chk.add_enum("text-messages", n, keys, "text offers over a %d-string alphabet (quotes, backslashes, control characters, ESC, RTL override, non-BMP, "
                 "separators) through Sender._build_offer -> JSON -> Receiver._handle_text: the printed line unescapes to the text and contains no "
                 "raw non-printable character" % len(TEXTS), samples, viol)


def boundary_set(total):
    cuts = set([0, 1, 2, total - 2, total - 1, total])
    pos = 0
    rec = 16384 + 44
    while pos < total:
        for base in (pos, pos + 4, pos + 28, pos + rec - 16, pos + rec):
            for d in (-1, 0, 1):
                if 0 <= base + d <= total:
                    cuts.add(base + d)
        pos += rec
    return sorted(c for c in cuts if 0 <= c <= total)


def run(chk):
    chk.assumptions += [
        "success = the Deferreds of Sender._handle_answer / Receiver._parse_offer (necessary for send()/receive() to succeed); the mailbox leg is C03's business",
        "transit stream positions are restricted to a boundary set (+-1 around record and field boundaries) for payloads above 300 bytes",
        "directory permissions/mtimes are not compared (the property speaks of bytes and names)",
    ]
    ctx = mp.get_context("fork")
    # honest transfers, several segmentations
    viol = []
    keys = set()
    n = 0
    lens = {}
    specs = [("file", s) for s in SIZES] + [("cfile", k) for k in sorted(CONTENTS)] + [("dir", k) for k in sorted(TREES)]
    for spec in specs:
        for seg in (None, 1000, 1, 7) if (spec[0] == "file" and spec[1] <= 1) else (None, 1000, 16427):
            v, data_len, ack_len = honest(spec, seg)
            n += 1
            keys.add((spec, seg))
            lens[spec] = (data_len, ack_len)
            for x in v:
                x["case"] = dict(spec=list(spec), seg=seg)
            viol.extend(v)
    chk.add_enum("honest-transfers", n, keys, "file sizes %r, special contents %r and directory trees %r sent by the real Sender._send_file (FileSender, zipstream) and received by the "
                 "real Receiver over a real transit connection, under several TCP segmentations: both succeed and the received tree equals the sent tree" % (
                     SIZES, sorted(CONTENTS), sorted(TREES)), [list(s) for s in specs[:3]], viol, extra=dict(stream_lengths={"%s:%s" % k: v for k, v in lens.items()}))
    # faults
    tasks = []
    fspecs = [("file", s) for s in (SIZES if chk.tier != "quick" else [0, 1, 16384, 16385, 40000])] + [("dir", "nested")]
    for spec in fspecs:
        total, ack_total = lens[spec]
        cuts = list(range(total + 1)) if total <= 300 else boundary_set(total)
        for k in cuts:
            tasks.append((spec, "cut-data", k, total))
            if k < total:
                tasks.append((spec, "flip-data", k, (k + seed()) % 8))
                if chk.tier != "quick":
                    tasks.append((spec, "flip-data", k, (k + seed() + 4) % 8))
        for k in range(0, ack_total):
            if chk.tier != "quick" or k in (0, 1, 4, 28, ack_total - 1):
                tasks.append((spec, "cut-ack", k, None))
    viol = []
    keys = set()
    n = 0
    with ctx.Pool(NPROC) as pool:
        for v, k in pool.imap_unordered(faulty, tasks, chunksize=8):
            n += 1
            keys.add(k)
            viol.extend(v)
    chk.add_enum("stream-faults", n, keys, "for each payload: abortive cut after every byte (boundary set for large payloads) of the data direction, one bit flip at "
                 "each of those positions, and a cut before / inside the acknowledgement; oracle: neither side succeeds and no final destination appears "
                 "unless the receiver had every byte; the sender never succeeds without the ack", [list(t[:3]) for t in tasks[::max(1, len(tasks) // 4)]][:4], viol)
    tasks = []
    for spec in (("file", 16385), ("file", 40000), ("dir", "nested")):
        total = lens[spec][0]
        for k in sorted(set([20, total // 3, total // 2, total - 30])):
            if 0 < k < total:
                tasks.append((spec, k))
    viol = []
    keys = set()
    n = 0
    with ctx.Pool(NPROC) as pool:
        for v, k in pool.imap_unordered(retry_after_cut, tasks):
            n += 1
            keys.add(k)
            viol.extend(v)
    chk.add_enum("retry-after-cut", n, keys, "a transfer cut inside the data stream, then a complete second transfer of the same payload into the same "
                 "directory: both sides succeed and the received tree is byte-exact", [[list(t[0]), t[1]] for t in tasks[:3]], viol)
    tasks = [(("file", s), v) for s in (1, 16385) for v in ("good", "wrong-hash", "ack-no", "empty-ack", "truncated-hash", "upper-hash")]
    viol = []
    keys = set()
    n = 0
    with ctx.Pool(NPROC) as pool:
        for v, k in pool.imap_unordered(forged_ack, tasks):
            n += 1
            keys.add(k)
            viol.extend(v)
    chk.add_enum("forged-acks", n, keys, "a scripted receiver end (real Connection) answers with a correctly encrypted ack carrying a different sha256 / "
                 "ack:'no' / no fields: the sender must not report success", [list(t[1:]) for t in tasks[:3]], viol)
    texts(chk)


def replay(body):
    print("re-running the enumeration the case came from:", body.get("scenario"), body.get("case"))
    from ..core.report import Check
    chk = Check("C04", body.get("tier", "quick"), seed(), level=LEVEL)
    chk.log = lambda m: None
    run(chk)
    for v in chk.violations:
        print("VIOLATION-REPLAYED", v["oracle"], v["sig"], v["msg"])
    return 1 if chk.violations else 0
