"""C13 - subchannels open once, close once, and honour the subprotocol contract."""
import os

from ..core.explore import Scenario, explore, run_linear
from ..env.dilation import DilationWorld, connected_prefix

LEVEL = "model_checking"


def seed():
    return int(os.environ.get("VERIF_SEED", "0") or 0)


def scids(side):
    out = set()
    for p in side.chans:
        t = p.transport
        if t is not None and hasattr(t, "_scid"):
            out.add(t._scid)
    return out


def mon(w):
    a, b = w.sides
    # the two sides never allocate the same subchannel id
    sa, sb = w.__dict__.setdefault("_scids", (set(), set()))
    sa |= scids(a)
    sb |= scids(b)
    if sa & sb:
        w.flag("scid-disjoint", "collision", "both sides allocated subchannel id(s) %r" % sorted(sa & sb))
    for s in w.sides:
        for kind, lst in (("chan", s.chans), ("accepted", s.accepted)):
            for i, p in enumerate(lst):
                log = p.log
                lost = [j for j, e in enumerate(log) if e[0] == "lost"]
                if len(lost) > 1:
                    w.flag("close-once", "%s-twice" % kind, "side %d %s[%d] saw connectionLost %d times: %r" % (s.i, kind, i, len(lost), log))
                if lost and lost[0] != len(log) - 1:
                    w.flag("nothing-after-lost", kind, "side %d %s[%d] got %r after connectionLost" % (s.i, kind, i, log[lost[0] + 1:]))
                made = [j for j, e in enumerate(log) if e[0] == "made"]
                if len(made) > 1 or (log and made != [0]):
                    w.flag("open-once", "%s-made" % kind, "side %d %s[%d]: connectionMade not exactly once and first: %r" % (s.i, kind, i, log))
        for i, p in enumerate(s.accepted):
            if p.log and p.log[0] == ("made", p.tag) and p.built_for != p.tag:
                w.flag("subprotocol-name", "accepted", "listener for %r got a subchannel opened for %r" % (p.tag, p.built_for))
            if p.log and p.log[0][0] == "made" and p.log[0][1] != p.tag:
                w.flag("subprotocol-name", "accepted-peer", "listener for %r: getPeer().subprotocol = %r" % (p.tag, p.log[0][1]))
    # pairing: the k-th subchannel opened for a name pairs with the k-th accepted protocol of that name on the peer
    for s in w.sides:
        peer = w.sides[1 - s.i]
        by_name = {}
        for p in s.chans:
            by_name.setdefault(p.tag, []).append(p)
        for name, opened in by_name.items():
            acc = [q for q in peer.accepted if q.tag == name]
            if len(acc) > len(opened):
                w.flag("open-once", "extra-accept", "side %d opened %d subchannels for %r but the peer built %d protocols" % (s.i, len(opened), name, len(acc)))
            for p, q in zip(opened, acc):
                sent = p.__dict__.get("_written", [])
                got = [e[1] for e in q.log if e[0] == "data"]
                if got != sent[:len(got)]:
                    w.flag("data-order", "fwd", "side %d wrote %r, peer received %r" % (s.i, sent, got))
                if ("lost",) in q.log and p.__dict__.get("_closed_after") is not None:
                    # everything written before the local close must be there before the peer's connectionLost
                    need = sent[:p._closed_after]
                    if got[:len(need)] != need:
                        w.flag("data-before-close", "fwd", "side %d wrote %r then closed; peer saw connectionLost after only %r" % (s.i, need, got))
                sent_b = q.__dict__.get("_written", [])
                got_b = [e[1] for e in p.log if e[0] == "data"]
                if got_b != sent_b[:len(got_b)]:
                    w.flag("data-order", "back", "accepted side wrote %r, opener received %r" % (sent_b, got_b))
                if ("lost",) in p.log and q.__dict__.get("_closed_after") is not None:
                    need = sent_b[:q._closed_after]
                    if got_b[:len(need)] != need:
                        w.flag("data-before-close", "back", "accepted side wrote %r then closed; opener saw connectionLost after only %r" % (need, got_b))
    # expected_subprotocols: an OPEN outside the declared set is never held pending
    for s in w.sides:
        exp = (w.cfg.get("expected_subprotocols") or {}).get(s.i)
        if exp is not None:
            pend = s.manager._subprotocol_factories._pending_opens
            bad = [n for n, dq in pend.items() if dq and n not in exp]
            if bad:
                w.flag("unexpected-subprotocol", "held-pending",
                       "side %d declared expected_subprotocols=%r but holds OPEN(s) for %r pending" % (s.i, sorted(exp), bad))
    if w.errors:
        w.flag("internal", w.errors[0][0] + "@" + w.errors[0][2], "errors: %r" % (w.errors,))


def fin(w):
    out = []
    for s in w.sides:
        peer = w.sides[1 - s.i]
        exp = (w.cfg.get("expected_subprotocols") or {}).get(peer.i)
        listened = set(op[1] for t in peer.threads for op in t if op[0] == "listen")
        for idx, p in enumerate(s.chans):
            name = p.tag
            acc = [q for q in peer.accepted if q.tag == name]
            nth = [x for x in s.chans if x.tag == name].index(p)
            if name in listened:
                if len(acc) <= nth:
                    out.append(dict(oracle="open-once", sig="never-accepted", msg="side %d opened %r (#%d) and the peer listens for it, but no protocol was built; peer accepted=%d" % (
                        s.i, name, nth, len(acc))))
            elif exp is not None and name not in exp:
                if ("lost",) not in p.log:
                    out.append(dict(oracle="unexpected-subprotocol", sig="not-refused",
                                    msg="side %d opened %r, outside the peer's expected set %r, but was never closed by the peer: %r" % (s.i, name, sorted(exp), p.log)))
        # closes: both ends of a closed channel end with connectionLost
        for name in set(p.tag for p in s.chans):
            for p, q in zip([x for x in s.chans if x.tag == name], [x for x in peer.accepted if x.tag == name]):
                closed = p.__dict__.get("_closed_after") is not None or q.__dict__.get("_closed_after") is not None
                if closed and not p.__dict__.get("_half") and (("lost",) not in p.log or ("lost",) not in q.log):
                    out.append(dict(oracle="close-once", sig="never-lost", msg="channel %r was closed but connectionLost did not reach both ends: %r / %r" % (name, p.log, q.log)))
        for idx, r in enumerate(s.connect_results):
            if r is not None and r != "ok":
                out.append(dict(oracle="open-once", sig="connect-failed:%s" % r,
                                msg="side %d: connect() #%d on a dilated, connected wormhole failed with %s (results %r)" % (s.i, idx, r, s.connect_results)))
    # write after close must have raised
    for s in w.sides:
        for t in s.threads:
            closed = set()
            for op in t:
                if op[0] in ("close", "sclose"):
                    closed.add((op[0][0] == "s", op[1]))
                if op[0] in ("write", "swrite") and (op[0][0] == "s", op[1]) in closed:
                    if not any(e[0] == op[0] for e in s.api_errors):
                        out.append(dict(oracle="write-after-close", sig=op[0], msg="side %d: %r after close did not raise: %r" % (s.i, op, s.api_errors)))
    return out


def app_hook(w, s, op):
    """record what was written / when the close happened, on the protocol objects (ghost data for the oracle)"""
    return False


def wrap_ops(w):
    # instrument writes/closes through the world's _app by wrapping it
    orig = w._app

    def _app(s, op):
        k = op[0]
        if k in ("write", "swrite"):
            p = (s.chans if k == "write" else s.accepted)[op[1]]
            n_before = len(s.api_errors)
            orig(s, op)
            if len(s.api_errors) == n_before:
                p.__dict__.setdefault("_written", []).append(op[2])
            return
        if k in ("close", "sclose", "half_close"):
            p = (s.chans if k != "sclose" else s.accepted)[op[1]]
            if p.__dict__.get("_closed_after") is None:
                p._closed_after = len(p.__dict__.get("_written", []))
            if k == "half_close":
                p._half = True
        orig(s, op)
    w._app = _app


BASE = dict(explored=("deliver", "app", "close"), chunking="whole", no_timer=True)
_PREFIX = {}


def mk(name, threads, expected=None, **kw):
    cfg = dict(BASE, threads=threads, monitors=[mon], final_monitors=[fin], post_init=wrap_ops)
    if "lose" in kw:
        cfg["lose"] = kw.pop("lose")
        cfg["explored"] = tuple(cfg["explored"]) + ("lose",)
        cfg["losable"] = lambda w, link: any(s.manager._connection is not None and s.manager._connection.transport.link is link for s in w.sides)
    if expected:
        cfg["expected_subprotocols"] = expected
    key = repr(sorted((expected or {}).items()))
    if key not in _PREFIX:
        _PREFIX[key] = connected_prefix(dict(cfg, explored=("mbox", "conn_ok", "deliver", "close", "turn", "app")))
    # the prefix was recorded with mbox/conn_ok/turn explored; replay it eagerly instead: those kinds are eager here
    s = seed()

    def factory():
        return DilationWorld(cfg, s)
    return Scenario(name, factory, **kw)


def scenarios(tier):
    q = tier == "quick"
    S = []
    A = {0: [[("open", "p"), ("write", 0, b"a1"), ("close", 0), ("write", 0, b"late")]],
         1: [[("listen", "p")]]}
    S.append(mk("open-write-close-vs-late-listen", A, max_depth=80, max_states=400000))
    # OPEN and CLOSE (no data at all, or only an empty write) queued before the listener appears
    S.append(mk("open-close-nodata-vs-late-listen", {0: [[("open", "p"), ("close", 0)]], 1: [[("listen", "p")]]}, max_depth=60, max_states=400000))
    if not q:
        S.append(mk("open-emptywrite-close-vs-late-listen", {0: [[("open", "p"), ("write", 0, b""), ("close", 0)]], 1: [[("listen", "p")]]},
                    max_depth=60, max_states=400000))
    # data from the peer crossing a local close: the close is not forgotten (a later write still fails, connectionLost comes once)
    X = {0: [[("open", "p"), ("close", 0), ("write", 0, b"late")]], 1: [[("listen", "p")], [("swrite", 0, b"b1")]]}
    S.append(mk("data-crossing-local-close", X, max_depth=80, max_states=400000))
    A2 = {0: [[("open", "p"), ("write", 0, b"a1"), ("write", 0, b""), ("write", 0, b"a1"), ("close", 0), ("write", 0, b"late")]],
          1: [[("listen", "p")], [("swrite", 0, b"b1"), ("sclose", 0), ("swrite", 0, b"late")]]}
    S.append(mk("both-write-both-close-dev", A2, dev_bound=3 if q else 4, max_depth=120))
    B = {0: [[("open", "p"), ("write", 0, b"x")], [("open", "p"), ("write", 1, b"y"), ("close", 1)], [("listen", "r")]],
         1: [[("listen", "p")], [("open", "r"), ("write", 0, b"z"), ("close", 0)]]}
    S.append(mk("two-opens-each-way-dev", B, dev_bound=3 if q else 4, max_depth=120))
    # subchannels opened before and after a loss of the peer connection, on both sides: ids stay distinct across generations
    R = {0: [[("open", "p"), ("write", 0, b"x")], [("open_later", "p"), ("write", 1, b"y")], [("listen", "r")]],
         1: [[("listen", "p")], [("open", "r")], [("open_later", "r")]]}
    S.append(mk("opens-across-reconnect-dev", R, lose=1, dev_bound=2 if q else 3, max_depth=160))
    for exp_name, exp in (("expected-p", {1: {"p"}}), ("expected-q", {1: {"q"}}), ("expected-empty", {1: set()})):
        C = {0: [[("open", "p"), ("write", 0, b"hello")], [("open", "zz")]],
             1: [[("listen", "p")]] if exp_name == "expected-p" else [[("listen", "q")]]}
        if exp_name == "expected-q" and q:
            C[0] = [[("open", "p"), ("write", 0, b"hello")]]
        S.append(mk("unexpected-open-%s" % exp_name, C, expected=exp,
                    dev_bound=None if (exp_name == "expected-q" or not q) else 3, max_depth=80, max_states=3000000))
    # two declared names, OPENs for both held until the listeners appear, the listeners registered in either order: each held OPEN
    # surfaces under its own name, once (with expected_subprotocols unset and with both names declared)
    for exp_name, exp in (("unset", {}), ("pq", {1: {"p", "q"}})):
        TWO = {0: [[("open", "p"), ("write", 0, b"for-p")], [("open", "q"), ("write", 1, b"for-q")]], 1: [[("listen", "q")], [("listen", "p")]]}
        S.append(mk("two-names-held-listen-any-order-%s" % exp_name, TWO, expected=exp, dev_bound=3 if q else 4, max_depth=80))
    H = {0: [[("open", "h", "half"), ("write", 0, b"h1"), ("half_close", 0)]],
         1: [[("listen", "h", "half")], [("swrite", 0, b"r1"), ("shalf_close", 0)]]}
    S.append(mk("half-closeable", H, dev_bound=3 if q else None, max_depth=80, max_states=3000000))
    if not q:
        S.append(mk("both-write-both-close-bfs", {0: [[("open", "p"), ("write", 0, b"a1"), ("close", 0), ("write", 0, b"late")]],
                                                  1: [[("listen", "p")], [("swrite", 0, b"b1"), ("sclose", 0)]]}, max_depth=120, max_states=3000000))
        A3 = {0: [[("open", "p"), ("write", 0, b"a1"), ("write", 0, b"a2"), ("write", 0, b"a3"), ("close", 0)],
                  [("open", "p"), ("write", 1, b"c1"), ("close", 1)]],
              1: [[("listen", "p")], [("swrite", 0, b"b1"), ("swrite", 0, b"b2"), ("sclose", 0)], [("swrite", 1, b"d1")]]}
        S.append(mk("three-writes-two-channels-dev", A3, dev_bound=4, max_depth=160))
    return S


def shalf(w, s, op):
    if op[0] == "open_later":
        w._app(s, ("open", op[1]))
        return True
    if op[0] == "shalf_close":
        s.accepted[op[1]].transport.loseWriteConnection()
        return True
    return False


def guard(w, s, op):
    if op[0] == "open_later":
        # an open issued only once the (single) loss of the peer connection has happened and both sides are connected again
        return w.lose_left == 0 and w.mstate(0) == "CONNECTED" and w.mstate(1) == "CONNECTED"
    if op[0] == "shalf_close":
        return len(s.accepted) > op[1] and s.accepted[op[1]].transport is not None
    return None


BASE["app_hook"] = shalf
BASE["op_guard"] = guard


def run(chk):
    chk.assumptions += [
        "both Managers are first driven to CONNECTED on one link by the default schedule (eager setup), then application operations and "
        "record deliveries are the explored events; eventual-queue turns are eager",
        "Noise stand-in as in C12",
    ]
    for sc in scenarios(chk.tier):
        if getattr(chk, "only", None) and chk.only not in sc.name:
            continue
        res = explore(sc, log=chk.log if os.environ.get("VERIF_VERBOSE") else None)
        chk.add_result(res)


def replay(body):
    for sc in scenarios(body.get("tier", "quick")):
        if sc.name == body["scenario"]:
            w, v = run_linear(sc.factory, [tuple(e) for e in body["events"]])
            for s in w.sides:
                print("side", s.i, "chans", [p.log for p in s.chans], "accepted", [p.log for p in s.accepted], s.api_errors)
            for x in v:
                print("VIOLATION-REPLAYED oracle=%s sig=%s: %s" % (x["oracle"], x["sig"], x["msg"]))
            return 1 if v else 0
    return 2
