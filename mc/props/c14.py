"""C14 - no internal failure on any legal use against a conformant server."""
import json

from .w1common import CODE, mk, run_scenarios, replay as _replay, W1_ASSUMPTIONS
from . import c09

LEVEL = "model_checking"
DOCUMENTED = {"happy", "LonelyError", "WrongPasswordError", "ServerError", "WelcomeError",
              "ServerConnectionError"}


def mon_internal(w):
    internal = set()
    for rec in w.escaped:
        what, ci, tname, msg, site = rec[:5]
        internal.add(tname)
        if what.startswith("api:") and what[4:] in CODE_STEPS and rec[5] in ("S3_closing", "S4_closed"):
            # the wormhole had begun closing on its own (server error / welcome error) and the
            # application, which could not know yet, made a code-entry call
            w.flag("internal-failure", "code-entry-while-closing:%s" % tname,
                   "%s escaped %s of client %d (Boss was %s) at %s: %s" % (tname, what, ci, rec[5], site, msg))
            continue
        w.flag("internal-failure", "%s@%s" % (tname, site),
               "%s escaped %s of client %d at %s: %s" % (tname, what, ci, site, msg))
    for (tname, msg, where) in w.errors:
        internal.add(tname)
        w.flag("internal-failure", "%s@%s" % (tname, where), "log.err: %s at %s: %s" % (tname, where, msg))
    for (tname, msg, where) in w.__dict__.get("swallowed", ()):
        # raised inside a Deferred callback: nothing escapes and nothing is logged until the garbage collector finds the Deferred
        internal.add(tname)
        if not any(r[2] == tname for r in w.escaped) and not any(r[0] == tname for r in w.errors):
            w.flag("internal-failure", "in-callback:%s@%s" % (tname, where), "%s raised inside a Deferred callback at %s: %s" % (tname, where, msg))
    for c in w.clients:
        for k, v in c.app.obs:
            if (k == "closed" or k.startswith("err:")) and v not in DOCUMENTED and v != "WormholeClosed" \
                    and v not in internal:
                w.flag("verdict-type", "%s" % v, "client %d: %s reported %r, not a documented WormholeError" % (c.ci, k, v))
        for op, tname in c.app.api_errors:
            if tname not in ("NoKeyError", "OnlyOneCodeError", "KeyFormatError") and tname not in internal:
                w.flag("api-error", "%s:%s" % (op, tname), "client %d: API %s raised %s" % (c.ci, op, tname))


def fin_closed(w):
    out = []
    for c in w.clients:
        wants = any(s[0] == "close" for t in c.threads for s in t)
        if wants and c.app.closed != 1 and c.ghost.get("close_rejected"):
            out.append(dict(oracle="closed-eventually", sig="server-rejected-%s" % c.ghost["close_rejected"],
                            msg="client %d closed, the server answered its %s command with an error instead of closed/released and the client "
                                "waits for ever; obs=%r" % (c.ci, c.ghost["close_rejected"], c.app.obs)))
        elif wants and c.app.closed != 1:
            out.append(dict(oracle="closed-eventually", sig="c%d" % c.ci,
                            msg="quiescent but client %d has %d closed notifications; obs=%r" % (c.ci, c.app.closed, c.app.obs)))
    return out


def hx(b):
    return b.hex()


JUNK = hx(b"junk" * 12)
THIRD = {
    # a polite third party that leaves again
    "polite": [{"type": "bind", "appid": "appid", "side": "third"}, {"type": "claim", "nameplate": "4"},
               {"type": "release", "nameplate": "4"}, {"type": "close", "mailbox": "$mailbox", "mood": "lonely"}],
    # claims, opens, posts a PAKE-less pake body then an application phase
    "nopake": [{"type": "bind", "appid": "appid", "side": "third"}, {"type": "claim", "nameplate": "4"},
               {"type": "open", "mailbox": "$mailbox"},
               {"type": "add", "phase": "pake", "body": hx(json.dumps({"x": 1}).encode())},
               {"type": "add", "phase": "0", "body": JUNK}],
    # a syntactically valid PAKE for another password, then its own version
    "otherpw": [{"type": "bind", "appid": "appid", "side": "third"}, {"type": "claim", "nameplate": "4"},
                {"type": "open", "mailbox": "$mailbox"},
                {"type": "add", "phase": "pake", "body": "$honest_pake"},
                {"type": "add", "phase": "version", "body": JUNK}],
    # no PAKE at all: only application phases that nobody can decrypt (they may arrive before or after the genuine key exchange)
    "latejunk": [{"type": "bind", "appid": "appid", "side": "third"}, {"type": "claim", "nameplate": "4"},
                 {"type": "open", "mailbox": "$mailbox"},
                 {"type": "add", "phase": "0", "body": JUNK}, {"type": "add", "phase": "1", "body": JUNK}],
    # malformed PAKE bodies (not JSON / bad hex / not a group element / wrong side byte)
    "badpake-notjson": [{"type": "bind", "appid": "appid", "side": "third"}, {"type": "claim", "nameplate": "4"},
                        {"type": "open", "mailbox": "$mailbox"}, {"type": "add", "phase": "pake", "body": hx(b"notjson")}],
    "badpake-element": [{"type": "bind", "appid": "appid", "side": "third"}, {"type": "claim", "nameplate": "4"},
                        {"type": "open", "mailbox": "$mailbox"},
                        {"type": "add", "phase": "pake", "body": hx(json.dumps({"pake_v1": "53" + "ff" * 32}).encode())}],
    "badpake-hex": [{"type": "bind", "appid": "appid", "side": "third"}, {"type": "claim", "nameplate": "4"},
                    {"type": "open", "mailbox": "$mailbox"},
                    {"type": "add", "phase": "pake", "body": hx(json.dumps({"pake_v1": "zz"}).encode())}],
    "badpake-side": [{"type": "bind", "appid": "appid", "side": "third"}, {"type": "claim", "nameplate": "4"},
                     {"type": "open", "mailbox": "$mailbox"},
                     {"type": "add", "phase": "pake", "body": hx(json.dumps({"pake_v1": "00"}).encode())}],
}


def honest_pake():
    """A well-formed SPAKE2 message for a different password (computed with the real library)."""
    from spake2 import SPAKE2_Symmetric
    from mc.core.entropy import Stream
    sp = SPAKE2_Symmetric(b"4-other-password", idSymmetric=b"appid", entropy_f=Stream(0, "third").read)
    return hx(json.dumps({"pake_v1": sp.start().hex()}).encode())


_HP = None


def third(name):
    global _HP
    sc = []
    for cmd in THIRD[name]:
        cmd = dict(cmd)
        if cmd.get("body") == "$honest_pake":
            if _HP is None:
                _HP = honest_pake()
            cmd["body"] = _HP
        sc.append(cmd)
    return sc


FLOWS = {
    "set": [("set_code", CODE)],
    "alloc": [("allocate", 2)],
    "input": [("input",), ("refresh",), ("completions_np", "4"), ("nameplate", "4"), ("completions_w", "pur"), ("words", "purple-sausages")],
    "input-short": [("input",), ("nameplate", "4"), ("words", "purple-sausages")],
}
CODE_STEPS = ("dilate", "set_code", "allocate", "input", "nameplate", "words", "refresh", "completions_np", "completions_w",
              "set_code_peer", "nameplate_peer", "words_peer")


def legal_guard(w, c, step):
    """Legal use: no code-entry call once the application itself called close() or has been told
    (closed notification / failed get_*) that the wormhole is over."""
    if step[0] in CODE_STEPS:
        if c.ghost["cause"] is not None and c.ghost["cause"][0] == "close":
            return False
        if any(k == "closed" or k.startswith("err:") for k, _ in c.app.obs):
            return False
    return c09.guard(w, c, step)


ALL = ("down", "up", "api", "raw", "connect", "drop", "reorder", "dup", "srverr", "stopfin", "connfail")


def cfg(flow="set", peer=None, mode="deferred", drops=(1, 0), fine=(0,), sends=1, raw=None, extra_threads=(), **kw):
    t0 = [list(FLOWS[flow]) + [("send", b"m%d" % i) for i in range(sends)], [("close",)]] + [list(t) for t in extra_threads]
    clients = [dict(threads=t0, drops=drops[0], mode=mode)]
    if peer is not None:
        pc = {"same": [("set_code_peer",)] if flow == "alloc" else [("set_code", CODE)],
              "wrong": [("set_code", "4-purple-sausagez")]}[peer]
        clients.append(dict(threads=[pc + [("send", b"p0")], [("close",)]], drops=drops[1], mode=mode))
    d = dict(clients=clients, explored=ALL, coarse=[i for i in range(len(clients)) if i not in fine],
             monitors=[mon_internal], final_monitors=[fin_closed], trace_machines=True,
             srverr_types=("claim", "open", "allocate", "list", "add"),
             api_hook=c09.api_hook, step_guard=legal_guard)
    if raw:
        d["raw"] = [third(raw)]
    d.update(kw)
    return d


def scenarios(tier):
    q = tier == "quick"
    S = []
    # solo client, every flow and API style, drops + injected server errors + initial connection failure
    for flow in ("set", "alloc", "input"):
        for mode in ("deferred", "delegate"):
            if q and flow == "input" and mode == "deferred":
                continue
            S.append(mk("solo-%s-%s" % (flow, mode),
                        cfg(flow, None, mode, sends=1 if flow != "input" else 0, srverr=1, initial_fail=True),
                        max_depth=90, max_states=300000))
    # legal-but-odd API use: send before the code, derive_key early, close twice
    S.append(mk("solo-oddapi", cfg("set", None, "deferred", sends=0, drops=(0, 0),
                                   extra_threads=[[("send", b"early")], [("derive", "p", 16)], [("close",)]]),
                max_depth=90, max_states=300000))
    # honest peer, reordered + duplicated delivery
    if not q:
        S.append(mk("pair-same-reorder", cfg("set", "same", "delegate", drops=(0, 0), reorder=1), max_depth=100, max_states=3000000))
    S.append(mk("pair-same-reorder-nosend", cfg("set", "same", "delegate", drops=(0, 0), reorder=1, sends=0), max_depth=100, max_states=300000))
    S.append(mk("pair-same-reorder-dup-dev2", cfg("set", "same", "delegate", drops=(1, 0) if q else (1, 1), fine=(0, 1), reorder=1 if q else 2, dup=1 if q else 2, srverr=1),
                dev_bound=2 if q else 3, max_depth=250))
    S.append(mk("pair-wrong", cfg("set", "wrong", "deferred", drops=(0, 0), sends=0), max_depth=100, max_states=300000))
    # a server error reply to `add` while the wormhole is already happy
    S.append(mk("pair-same-srverr-add-dev3", cfg("set", "same", "delegate", drops=(0, 0), fine=(0, 1), sends=2, srverr=1, srverr_types=("add",)),
                dev_bound=2 if q else 4, max_depth=200))
    S.append(mk("pair-input-same-dev2", cfg("input", "same", "deferred", drops=(1, 1), fine=(0, 1), reorder=1, dup=1, srverr=1),
                dev_bound=2, max_depth=250))
    S.append(mk("pair-alloc-same-dev2", cfg("alloc", "same", "delegate", drops=(1, 1), fine=(0, 1), reorder=1, dup=1, srverr=1),
                dev_bound=2, max_depth=250))
    # the server begins the WebSocket closing handshake (it is restarting): until the connection is gone every transmission the
    # library attempts raises Disconnected inside it; any API call may fall into that window, then the connection is lost and replaced
    WS = ALL + ("wsclosing",)
    for flow in ("set", "alloc", "input-short"):
        S.append(mk("solo-%s-wsclosing" % flow, cfg(flow, None, "deferred", sends=1 if flow != "input-short" else 0, wsclosing=True, explored=WS),
                    max_depth=90, max_states=300000))
    S.append(mk("pair-same-wsclosing-dev2", cfg("set", "same", "delegate", drops=(1, 0) if q else (1, 1), fine=(0,) if q else (0, 1), wsclosing=True, explored=WS),
                dev_bound=2 if q else 3, max_depth=250))
    S.append(mk("pair-input-same-wsclosing-dev2", cfg("input-short", "same", "deferred", drops=(1, 0), fine=(0,), wsclosing=True, explored=WS),
                dev_bound=2 if q else 3, max_depth=250))
    # the server's welcome on a reconnection carries an error while the wormhole is already happy
    S.append(mk("pair-same-unwelcome-on-reconnect-dev2", cfg("set", "same", "delegate", drops=(1, 0), fine=(0,), welcome_later={"error": "retired"}),
                dev_bound=2 if q else 3, max_depth=250))
    # a third side that posts undecryptable application phases, before or after the honest key exchange has been verified
    S.append(mk("third-latejunk-pair-uncrowded-dev2", cfg("set", "same", "delegate", drops=(0, 0), fine=(0,), sends=1, raw="latejunk", crowd_limit=None),
                dev_bound=2 if q else 3, max_depth=250))
    # welcome variants
    for flow in ("set", "alloc", "input-short"):
        S.append(mk("solo-unwelcome-%s" % flow, cfg(flow, None, "deferred", sends=0, welcome={"error": "too old"}), max_depth=80))
    S.append(mk("solo-motd", cfg("alloc", None, "delegate", welcome={"motd": "hello", "current_cli_version": "9.9"}), max_depth=80))
    # a third participant, before / after / between
    for name in sorted(THIRD):
        for flow in (("set", "input-short") if name in ("nopake", "otherpw") or not q else ("set",)):
            S.append(mk("third-%s-%s" % (name, flow), cfg(flow, None, "deferred", drops=(0, 0), sends=0, raw=name),
                        max_depth=90, max_states=300000))
    S.append(mk("third-polite-pair-dev2", cfg("set", "same", "delegate", drops=(0, 0), fine=(0, 1), raw="polite"), dev_bound=2, max_depth=250))
    # a server that does not enforce the reference implementation's two-side limit (the protocol does not require it):
    # the third participant's messages and the genuine peer's both reach the client, in every order
    S.append(mk("third-otherpw-pair-uncrowded-dev2", cfg("set", "same", "delegate", drops=(0, 0), fine=(0,), sends=0, raw="otherpw", crowd_limit=None),
                dev_bound=2 if q else 3, max_depth=250))
    S.append(mk("third-nopake-pair-uncrowded-dev2", cfg("input-short", "same", "delegate", drops=(0, 0), fine=(0, 1), raw="nopake", crowd_limit=None),
                dev_bound=2, max_depth=250))
    S.append(mk("third-nopake-pair-dev2", cfg("input-short", "same", "delegate", drops=(0, 0), fine=(0, 1), raw="nopake"), dev_bound=2, max_depth=250))
    # dilation requested early on both sides; a conformant server may replay the peer's dilate-0 before its version
    from ..env import dilation as _dil     # noqa: F401  (Noise stand-in entropy / make_side seams)
    dcl = [dict(threads=[[("set_code", CODE), ("dilate",)]], dilation=True, mode="deferred", drops=0),
           dict(threads=[[("set_code", CODE), ("dilate",)]], dilation=True, mode="deferred", drops=0)]
    S.append(mk("dilate-early-reorder", dict(clients=dcl, net=True, explored=("down", "up", "api", "connect", "reorder"), coarse=[1], reorder=1,
                                              monitors=[mon_internal], final_monitors=[fin_closed], trace_machines=True,
                                              step_guard=legal_guard, api_hook=c09.api_hook),
                max_depth=200, max_states=300000 if q else 3000000))
    if not q:
        S.append(mk("pair-same-reorder2-dup-drop", cfg("set", "same", "delegate", drops=(1, 0), reorder=2, dup=1), max_depth=120, max_states=3000000))
        S.append(mk("pair-input-same-fine0", cfg("input-short", "same", "deferred", drops=(1, 0), reorder=1), max_depth=120, max_states=3000000))
        S.append(mk("pair-input-same-dev3", cfg("input", "same", "deferred", drops=(2, 1), fine=(0, 1), reorder=2, dup=1, srverr=1),
                    dev_bound=3, max_depth=300))
        S.append(mk("third-nopake-pair-dev3", cfg("input-short", "same", "delegate", drops=(1, 0), fine=(0, 1), raw="nopake"), dev_bound=3, max_depth=300))
        S.append(mk("third-otherpw-pair-dev3", cfg("set", "same", "delegate", drops=(1, 0), fine=(0, 1), raw="otherpw"), dev_bound=3, max_depth=300))
    return S


def declared_pairs():
    import wormhole._boss as b
    from wormhole import _nameplate, _mailbox, _send, _order, _key, _receive, _lister, _allocator, _input, _code, _terminator
    ms = {"B": b.Boss, "N": _nameplate.Nameplate, "M": _mailbox.Mailbox, "S": _send.Send, "O": _order.Order,
          "K": _key.Key, "SK": _key._SortedKey, "R": _receive.Receive, "L": _lister.Lister, "A": _allocator.Allocator,
          "I": _input.Input, "C": _code.Code, "T": _terminator.Terminator}
    out = set()
    for nm, klass in ms.items():
        for (s_in, inp, s_out, outs) in klass.m._automaton._transitions:
            out.add((nm, s_in.method.__name__, inp.method.__name__))
    return out


def run(chk):
    chk.assumptions += W1_ASSUMPTIONS
    chk.assumptions.append("conformant-server behaviours explored: FIFO delivery, bounded reordering and duplication of stored "
                           "`message` responses, `error` replies to claim/open/allocate/list/add, welcome error/motd, a third "
                           "participant (scripted raw connection), connection loss, initial connection failure")
    from ..core.explore import explore
    import os
    cov = set()
    for sc in scenarios(chk.tier):
        if getattr(chk, "only", None) and chk.only not in sc.name:
            continue
        res = explore(sc, log=chk.log if os.environ.get("VERIF_VERBOSE") else None)
        cov |= res.coverage
        chk.add_result(res)
    decl = declared_pairs()
    reached = set((m, s, i) for (m, s, i) in cov)
    chk.extra["automat_pairs_declared"] = len(decl)
    chk.extra["automat_pairs_reached"] = len(reached & decl)
    chk.extra["automat_pairs_not_reached"] = sorted("%s.%s.%s" % p for p in (decl - reached))
    chk.log("  automat (machine,state,input) pairs reached: %d of %d declared" % (len(reached & decl), len(decl)))


def replay(body):
    return _replay(body, scenarios(body.get("tier", "quick")))
