"""C10 - dilation delivers every record exactly once, in order, across reconnects."""
import os

from ..core.explore import Scenario, explore, run_linear
from ..env.dilation import DilationWorld
from . import c13, c15

LEVEL = "model_checking"


def seed():
    return int(os.environ.get("VERIF_SEED", "0") or 0)


def pairs(w):
    """(opener side, opener protocol, accepted protocol or None) in open order per name"""
    out = []
    for s in w.sides:
        peer = w.sides[1 - s.i]
        by = {}
        for p in s.chans:
            by.setdefault(p.tag, []).append(p)
        for name, opened in by.items():
            acc = [q for q in peer.accepted if q.tag == name]
            for k, p in enumerate(opened):
                out.append((s.i, p, acc[k] if k < len(acc) else None))
    return out


def expected_log(written, closed_by_writer, closed_by_reader):
    return written


def mon(w):
    # nobody tampers with the streams in this property's environment: a connection in use that is dropped because one end raised on
    # what the other end sent (and the network had not broken it) means honest records were unreadable
    used = w.__dict__.setdefault("_used_links", set())
    for s_ in w.sides:
        c = s_.manager._connection
        if c is not None:
            used.add(c.transport.link.idx)
    for l in w.net.links:
        if l.idx in used and not l.broken:
            who = [e.side for e in l.ends if e.transport.lose_calls > 0]
            if who:
                w.flag("in-order-exactly-once", "used-connection-dropped-without-fault",
                       "link %d carried the session and the network did not break it, yet end(s) %r called loseConnection(): honest traffic "
                       "made the implementation give the connection up (managers %s / %s)" % (l.idx, who, w.mstate(0), w.mstate(1)))
    for (lidx, sd, broken, tname, msg, in_use) in w.__dict__.get("rx_raised", []):
        if in_use and not broken:
            w.flag("in-order-exactly-once", "honest-record-rejected:%s" % tname,
                   "link %d was in use and intact, but its end %d raised %s(%s) on the bytes the peer sent and dropped the connection" % (lidx, sd, tname, msg))
    for (tname, msg, site) in w.errors:
        w.flag("no-exception", "%s@%s" % (tname, site), "exception %s at %s: %s" % (tname, site, msg))
    for s in w.sides:
        for (k, arg, tname) in s.api_errors:
            if k in ("write", "swrite"):
                p = (s.chans if k == "write" else s.accepted)[arg]
                if ("lost",) in p.log or p.__dict__.get("_closed_after") is not None:
                    continue        # writing to a subchannel that is already closed raises: that is C13's contract
            w.flag("no-exception", "api:%s:%s" % (k, tname), "side %d: %s raised %s" % (s.i, k, tname))
        for kind, lst in (("chan", s.chans), ("accepted", s.accepted)):
            for i, p in enumerate(lst):
                made = [e for e in p.log if e[0] == "made"]
                lost = [j for j, e in enumerate(p.log) if e[0] == "lost"]
                if len(made) > 1 or (p.log and p.log[0][0] != "made"):
                    w.flag("exactly-once", "made", "side %d %s[%d]: %r" % (s.i, kind, i, p.log))
                if len(lost) > 1 or (lost and lost[0] != len(p.log) - 1):
                    w.flag("exactly-once", "lost", "side %d %s[%d]: connectionLost not once-and-last: %r" % (s.i, kind, i, p.log))
    for (si, p, q) in pairs(w):
        if q is None:
            continue
        for (src, dst, tag) in ((p, q, "fwd"), (q, p, "back")):
            sent = src.__dict__.get("_written", [])
            got = [e[1] for e in dst.log if e[0] == "data"]
            if got != sent[:len(got)]:
                w.flag("in-order-exactly-once", tag, "writes %r were delivered as %r (boundaries / order / duplicates)" % (sent, got))
            if ("lost",) in dst.log and src.__dict__.get("_closed_after") is not None and not dst.__dict__.get("_closed_after") is not None:
                need = sent[:src._closed_after]
                if got != need:
                    w.flag("in-order-exactly-once", tag + "-close", "writer wrote %r then closed; reader saw connectionLost with %r" % (need, got))
    # one accepted protocol per OPEN
    for s in w.sides:
        peer = w.sides[1 - s.i]
        for name in set(p.tag for p in s.chans):
            if len([q for q in peer.accepted if q.tag == name]) > len([p for p in s.chans if p.tag == name]):
                w.flag("exactly-once", "open-twice", "more protocols built for %r than subchannels opened" % name)


def fin(w):
    out = []
    if not (w.mstate(0) == "CONNECTED" and w.mstate(1) == "CONNECTED"):
        out.append(dict(oracle="reconnects", sig="%s/%s" % (w.mstate(0), w.mstate(1)),
                        msg="quiescent but the managers are %s / %s (losses left %d)" % (w.mstate(0), w.mstate(1), w.lose_left)))
        return out
    for s in w.sides:
        nopen = sum(1 for t in s.threads for op in t if op[0] == "open")
        if len(s.chans) != nopen or any(r != "ok" for r in s.connect_results):
            out.append(dict(oracle="delivered-eventually", sig="open", msg="side %d issued %d opens, results %r" % (s.i, nopen, s.connect_results)))
    for (si, p, q) in pairs(w):
        listened = any(op[0] == "listen" and op[1] == p.tag for t in w.sides[1 - si].threads for op in t)
        if q is None:
            if listened:
                out.append(dict(oracle="delivered-eventually", sig="open-lost", msg="side %d opened %r, the peer listens, but no protocol was built" % (si, p.tag)))
            continue
        for (src, dst, tag) in ((p, q, "fwd"), (q, p, "back")):
            sent = src.__dict__.get("_written", [])
            got = [e[1] for e in dst.log if e[0] == "data"]
            if got != sent:
                out.append(dict(oracle="delivered-eventually", sig=tag, msg="connected and quiescent: wrote %r, peer has %r" % (sent, got)))
        if (p.__dict__.get("_closed_after") is not None or q.__dict__.get("_closed_after") is not None) and \
                (("lost",) not in p.log or ("lost",) not in q.log):
            out.append(dict(oracle="delivered-eventually", sig="close", msg="closed, but connectionLost missing: %r / %r" % (p.log, q.log)))
    return out


def bp_post_init(w):
    """back-pressure during the replay of the queue on a replacement connection: every transport created after
    the first connection pauses its producer at the first write the producer makes (budgeted)"""
    c13.wrap_ops(w)
    c15.post_init(w)
    w.bp_left = w.cfg.get("bp", 1)

    def on_new_link(link):
        if len(w.net.links) <= 1:
            return
        for end in link.ends:
            t = end.transport

            def on_write(tr, data):
                if tr.producer is not None and w.bp_left > 0 and not getattr(tr, "told_paused", False):
                    w.bp_left -= 1
                    tr.told_paused = True
                    for i in (0, 1):
                        if c15.conn_transport(w, i) is tr or w.sides[i].manager._outbound is tr.producer:
                            w.model[i]["paused"] = True
                    tr.producer.pauseProducing()
            t.on_write = on_write
    w.net.on_new_link = on_new_link


def bp_events(w):
    evs = []
    for i in (0, 1):
        t = c15.conn_transport(w, i)
        if t is not None and getattr(t, "told_paused", False) and t.producer is not None and not t.closed:
            evs.append(("tresume", i))
    return evs


def bp_apply(w, ev):
    if ev[0] != "tresume":
        return False
    t = c15.conn_transport(w, ev[1])
    t.told_paused = False
    w.model[ev[1]]["paused"] = False
    w._guard("transport.resume", t.producer.resumeProducing)
    return True


def mk(name, threads, **kw):
    scn_kw = {k: kw.pop(k) for k in ("max_depth", "max_states", "dev_bound") if k in kw}
    cfg = dict(explored=("deliver", "app", "lose"), chunking="frames+mid", no_timer=True, threads=threads,
               monitors=[mon], final_monitors=[fin], post_init=c13.wrap_ops,
               losable=lambda w, link: any(s.manager._connection is not None and s.manager._connection.transport.link is link for s in w.sides))
    cfg.update(kw)
    s = seed()

    def factory():
        return DilationWorld(cfg, s)
    return Scenario(name, factory, **scn_kw)


def scenarios(tier):
    q = tier == "quick"
    S = []
    T0 = {0: [[("open", "p"), ("write", 0, b"a1"), ("close", 0)]], 1: [[("listen", "p")]]}
    S.append(mk("one-way-lose2-eitherend-dev", T0, lose=2, chunking="whole", dev_bound=2 if q else 4, max_depth=200))
    if not q:
        S.append(mk("one-way-lose1-bothends-bfs", T0, lose=1, lose_both=True, chunking="whole", max_depth=120, max_states=1500000))
    T1 = {0: [[("open", "p"), ("write", 0, b"a1"), ("write", 0, b"a2"), ("close", 0)]], 1: [[("listen", "p")]]}
    S.append(mk("one-way-lose2-midframe-dev", T1, lose=2, dev_bound=2 if q else 3, max_depth=200))
    T2 = {0: [[("open", "p"), ("write", 0, b"a1"), ("write", 0, b""), ("write", 0, b"a1"), ("close", 0)]],
          1: [[("listen", "p")], [("swrite", 0, b"b1"), ("swrite", 0, b"b2")]]}
    S.append(mk("two-way-lose2-dev", T2, lose=2, dev_bound=2 if q else 3, max_depth=200))
    T3 = {0: [[("open", "p"), ("write", 0, b"x1")], [("open", "p"), ("write", 1, b"y1"), ("close", 1)], [("listen", "r")]],
          1: [[("listen", "p")], [("open", "r"), ("write", 0, b"z1"), ("close", 0)]]}
    S.append(mk("two-subchannels-each-way-lose2-dev", T3, lose=2, dev_bound=2 if q else 3, max_depth=250))
    # writes issued while no connection exists (the reconnection dance is explored here, so there are states without a connection)
    S.append(mk("write-while-down-dev", {0: [[("open", "p"), ("write", 0, b"w1"), ("write", 0, b"w2")]], 1: [[("listen", "p")]]},
                lose=1, explored=("deliver", "app", "lose", "mbox", "conn_ok"), chunking="whole", dev_bound=2 if q else 3, max_depth=200))
    # the replacement connection's transport pushes back while the queue is being replayed, and the application keeps writing
    S.append(mk("replay-under-backpressure-dev", {0: [[("open", "p"), ("write", 0, b"r1"), ("write", 0, b"r2"), ("write", 0, b"r3"), ("write", 0, b"r4")]],
                                                  1: [[("listen", "p")]]},
                lose=2, lose_both=True, chunking="whole", explored=("deliver", "app", "lose", "tresume"), bp=2, app_first=True,
                post_init=bp_post_init, extra_events=bp_events, extra_apply=bp_apply,
                extra_state=lambda w: (w.bp_left, [(getattr(c15.conn_transport(w, i), "told_paused", None)) for i in (0, 1)]),
                dev_bound=3 if q else 4, max_depth=200))
    # a write whose record is just too big for one Noise message (encoded 65520 bytes: must be chopped), across a loss
    BIG = bytes((i * 7) % 251 for i in range(65511))
    S.append(mk("big-record-lose1-dev", {0: [[("open", "p"), ("write", 0, b"s"), ("write", 0, BIG), ("write", 0, b"t")]], 1: [[("listen", "p")]]},
                lose=1, chunking="whole", dev_bound=2 if q else 3, max_depth=120))
    if not q:
        S.append(mk("one-way-lose3-dev", T1, lose=3, dev_bound=5, max_depth=300))
    return S


def run(chk):
    chk.assumptions += [
        "setup to CONNECTED and (unless listed as explored) the reconnection dance - reconnect/reconnecting/hints over the mailbox, new listener, "
        "connection establishment, handshake turns - run eagerly on the default schedule; explored: application operations, delivery of record/ack "
        "bytes per direction (whole frames, or cut at and inside frames), abortive loss of the connection in use observed by either end",
        "Noise stand-in as in C12",
    ]
    for sc in scenarios(chk.tier):
        if getattr(chk, "only", None) and chk.only not in sc.name:
            continue
        res = explore(sc, log=chk.log if os.environ.get("VERIF_VERBOSE") else None)
        chk.add_result(res)


def replay(body):
    for sc in scenarios(body.get("tier", "quick")):
        if sc.name == body["scenario"]:
            w, v = run_linear(sc.factory, [tuple(e) for e in body["events"]])
            for s in w.sides:
                print("side", s.i, w.mstate(s.i), "chans", [p.log for p in s.chans], "accepted", [p.log for p in s.accepted], s.api_errors)
            print("errors", w.errors, "logged", w.logged)
            for x in v:
                print("VIOLATION-REPLAYED oracle=%s sig=%s: %s" % (x["oracle"], x["sig"], x["msg"]))
            return 1 if v else 0
    return 2
