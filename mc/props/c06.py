"""C06 - transit delivers exactly the records sent, or drops the connection."""
import io
import multiprocessing as mp
import os

from nacl.secret import SecretBox

from ..core import canon
from ..core.explore import Scenario, explore, run_linear, NPROC
from ..env.transitworld import connected_pair, pump, unwrap
from ..env.simnet import close_end
from ..env.patches import CTX

from twisted.internet import error
from wormhole import transit

LEVEL = "model_checking"


def seed():
    return int(os.environ.get("VERIF_SEED", "0") or 0)


def rec(i, n):
    return bytes(((i * 37 + j) % 251 for j in range(n)))


def build(records, direction):
    """connected pair; `records` sent by the chosen end; returns (world, receiving Connection, link, to_side, stream bytes,
    frame boundaries)"""
    w, sc, rc = connected_pair(seed=seed())
    src, dst = (sc, rc) if direction == "s2r" else (rc, sc)
    link = [l for (l, sd, p) in w.conns("S")][0]
    to_side = [sd for (l, sd, p) in (w.conns("R") if direction == "s2r" else w.conns("S"))][0]
    assert link.pending(to_side) == 0
    for r in records:
        src.send_record(r)
    stream = link.take(to_side, link.pending(to_side))
    bounds = []
    pos = 0
    for r in records:
        ln = 4 + 24 + 16 + len(r)
        bounds.append((pos, pos + ln))
        pos += ln
    assert pos == len(stream), (pos, len(stream))
    return w, src, dst, link, to_side, stream, bounds


class Reader:
    """the receiving application: three ways of reading"""

    def __init__(self, conn, mode, nrecords, total_bytes):
        self.conn = conn
        self.mode = mode
        self.got = []
        self.failed = []
        self.consumer_result = []
        self.sink = io.BytesIO()
        if mode == "waiting":
            for _ in range(nrecords + 1):
                self._read()
        elif mode == "consumer":
            d = conn.writeToFile(self.sink, total_bytes)
            d.addCallbacks(lambda n: self.consumer_result.append(("ok", n)),
                           lambda f: self.consumer_result.append(("fail", type(f.value).__name__)))

    def _read(self):
        d = self.conn.receive_record()
        d.addCallbacks(self.got.append, lambda f: self.failed.append(type(f.value).__name__))

    def drain(self):
        """mode 'queue': ask for everything that has arrived"""
        if self.mode == "queue":
            while self.conn._inbound_records:
                self._read()

    def delivered(self):
        if self.mode == "consumer":
            return self.sink.getvalue()
        return list(self.got)


def feed(w, link, to_side, conn, data, linger=False):
    """one TCP segment arrives; an exception out of dataReceived makes Twisted drop the connection (linger: the transport is a
    layered one that goes on handing over what it has already received until the close completes, as ITransport allows)"""
    CTX.world = w
    try:
        conn.dataReceived(data)
    except Exception as e:
        w.errors.append((type(e).__name__, str(e)[:80], "dataReceived"))
        if not linger:
            close_end(link, to_side, error.ConnectionLost())


# ------------------------------------------------------------------ chunking (path merging)
class ChunkWorld:
    def __init__(self, records, direction, mode, cuts=None):
        self.records = records
        self.w, self.src, self.dst, self.link, self.to_side, self.stream, self.bounds = build(records, direction)
        self.reader = Reader(self.dst, mode, len(records), sum(len(r) for r in records))
        self.pos = 0
        self.cuts = sorted(cuts) if cuts is not None else list(range(1, len(self.stream) + 1))
        self.viol = []

    def enabled(self):
        return [("feed", c) for c in self.cuts if c > self.pos]

    def apply(self, ev):
        c = ev[1]
        feed(self.w, self.link, self.to_side, self.dst, self.stream[self.pos:c])
        self.pos = c
        self.reader.drain()
        d = self.reader.delivered()
        if self.reader.mode == "consumer":
            exp = b"".join(self.records)
            if d != exp[:len(d)]:
                self.flag("prefix", "consumer", "consumer got bytes that are not a prefix of what was sent")
        else:
            complete = [r for r, (a, b) in zip(self.records, self.bounds) if b <= self.pos]
            if d != complete:
                self.flag("exact-records", "after-%d" % len(complete),
                          "after %d of %d stream bytes the reader has %d records, %d complete records are on the wire" % (
                              self.pos, len(self.stream), len(d), len(complete)))

    def flag(self, oracle, sig, msg):
        if not any(v["sig"] == sig for v in self.viol):
            self.viol.append(dict(oracle=oracle, sig=sig, msg=msg))

    def key(self):
        c = self.dst
        return canon.key_of((self.pos, c.state, c.buf, getattr(c, "next_receive_nonce", None), tuple(c._inbound_records),
                             len(c._waiting_reads), c._consumer_bytes_written, tuple(self.reader.got) if self.reader.mode != "consumer" else
                             self.reader.sink.getvalue(), tuple(self.reader.failed), tuple(self.reader.consumer_result),
                             self.dst.transport.disconnecting, tuple(self.w.errors)))

    def violations(self):
        return list(self.viol)

    def final_violations(self):
        out = []
        d = self.reader.delivered()
        if self.reader.mode == "consumer":
            if d != b"".join(self.records) or self.reader.consumer_result != [("ok", len(d))]:
                out.append(dict(oracle="exact-records", sig="consumer-final", msg="consumer result %r, %d bytes" % (self.reader.consumer_result, len(d))))
        elif d != list(self.records):
            out.append(dict(oracle="exact-records", sig="final", msg="reader has %d of %d records" % (len(d), len(self.records))))
        if self.w.errors or self.dst.state != "records":
            out.append(dict(oracle="exact-records", sig="dropped-honest-stream", msg="honest stream, but state=%r errors=%r" % (self.dst.state, self.w.errors)))
        return out

    def outcome(self):
        return (len(self.reader.delivered()), self.dst.state)


def boundary_cuts(bounds, total):
    cuts = set([total])
    for (a, b) in bounds:
        for base in (a, a + 4, a + 28, b - 16, b):
            for d in (-2, -1, 0, 1, 2):
                if 0 < base + d <= total:
                    cuts.add(base + d)
        # Noise-unrelated: TCP segment-ish sizes inside a large record
        for k in (1460, 16384, 65535, 65536):
            if a + k < b:
                cuts.add(a + k)
    return sorted(cuts)


SMALL = [rec(0, 0), rec(1, 1), rec(2, 17)]
BIG = [rec(3, 5), rec(4, 70000), rec(5, 0)]


def chunk_scenarios(tier):
    S = []
    for direction in ("s2r", "r2s"):
        for mode in ("queue", "waiting", "consumer"):
            if tier == "quick" and direction == "r2s" and mode != "queue":
                continue

            def fac(direction=direction, mode=mode):
                return ChunkWorld(SMALL, direction, mode)
            S.append(Scenario("chunk-all-cuts-%s-%s" % (direction, mode), fac, max_depth=400))
    _, _, _, _, _, stream, bounds = build(BIG, "s2r")
    cuts = boundary_cuts(bounds, len(stream))
    for mode in ("queue", "consumer"):
        def facb(mode=mode, cuts=cuts):
            return ChunkWorld(BIG, "s2r", mode, cuts)
        S.append(Scenario("chunk-boundary-70000-%s" % mode, facb, max_depth=len(cuts) + 1))
    return S


# ------------------------------------------------------------------ manipulations
def manipulations(stream, bounds, tier, big):
    """yield (name, position info, new stream, index of first manipulated record, complete_at)
    complete_at = stream offset (in the new stream) at which the first manipulated frame, as framed on the wire, is complete
    (None: never completes before EOF)"""
    n = len(bounds)

    def frame_end(ns, start):
        if len(ns) < start + 4:
            return None
        ln = int.from_bytes(ns[start:start + 4], "big")
        end = start + 4 + ln
        return end if end <= len(ns) else None
    # flips
    for j, (a, b) in enumerate(bounds):
        if big and (b - a) > 1000:
            offs = sorted(set(o for base in (a, a + 4, a + 28, b - 16) for o in range(base, base + 3)) | {a + 28 + 33333, b - 1})
        else:
            offs = range(a, b)
        for i in offs:
            for bit in ((0, 7) if tier != "quick" else ((i + seed()) % 8,)):
                ns = bytearray(stream)
                ns[i] ^= (1 << bit)
                ns = bytes(ns)
                yield ("flip", (j, i - a, bit), ns, j, frame_end(ns, a))
    for j, (a, b) in enumerate(bounds):
        ns = stream[:a] + stream[b:]
        if j < n - 1:
            yield ("delete", (j,), ns, j, frame_end(ns, a))
        ns = stream[:b] + stream[a:b] + stream[b:]
        yield ("replay", (j,), ns, j + 1, frame_end(ns, b))
        if j < n - 1:
            a2, b2 = bounds[j + 1]
            ns = stream[:a] + stream[a2:b2] + stream[a:b] + stream[b2:]
            yield ("swap", (j,), ns, j, frame_end(ns, a))
        # injected record under a wrong key but with the right nonce
        nonce = j.to_bytes(24, "big")
        enc = SecretBox(b"\x99" * 32).encrypt(b"forged", nonce)
        ns = stream[:a] + len(enc).to_bytes(4, "big") + enc + stream[a:]
        yield ("inject-wrong-key", (j,), ns, j, frame_end(ns, a))
        for k in sorted(set([a + 1, a + 4, a + 5, a + 28, b - 1])):
            if a < k < b:
                yield ("truncate", (j, k - a), stream[:k], j, None)


def run_manip(args):
    records, direction, mode, name, info, ns, first_bad, complete_at, chunking = args
    w, src, dst, link, to_side, stream, bounds = build(records, direction)
    # reflection needs a record from the other direction
    if name == "reflect":
        dst.send_record(b"reflected")
        o = link.take(1 - to_side, link.pending(1 - to_side))
        a = bounds[first_bad][0]
        ns = stream[:a] + o + stream[a:]
        complete_at = a + len(o)
    reader = Reader(dst, mode, len(records), sum(len(r) for r in records))
    viol = []
    if chunking == "whole":
        pieces = [ns]
    elif chunking in ("split", "split-linger") and complete_at:
        pieces = [ns[:complete_at - 1], ns[complete_at - 1:complete_at], ns[complete_at:]]
        if chunking == "split-linger":
            # what follows the manipulated frame arrives frame by frame, after the connection was told to close
            rest = ns[complete_at:]
            pieces = pieces[:2]
            while rest:
                ln = 4 + int.from_bytes(rest[:4], "big") if len(rest) >= 4 else len(rest)
                pieces.append(rest[:ln])
                rest = rest[ln:]
    else:
        pieces = [ns[i:i + 1] for i in range(len(ns))]
    fed = 0
    dropped_at = None
    for p in pieces:
        if not p:
            continue
        if dst.transport.closed:
            break
        feed(w, link, to_side, dst, p, linger=(chunking == "split-linger"))
        fed += len(p)
        reader.drain()
        if dropped_at is None and (dst.transport.disconnecting or dst.transport.closed):
            dropped_at = fed
        if complete_at is not None and fed >= complete_at and chunking == "split-linger" and (dst.transport.disconnecting or dst.transport.closed):
            continue      # told to close; the transport lingers: keep delivering what is in flight
        if complete_at is not None and fed >= complete_at and not (dst.transport.disconnecting or dst.transport.closed):
            viol.append(dict(oracle="drop-on-tamper", sig="%s:not-dropped" % name,
                             msg="%s %r: the manipulated record was complete at byte %d, %d bytes fed, connection still up (state %r)" % (
                                 name, info, complete_at, fed, dst.state)))
            break
    # end of stream: the peer (or the network) closes
    if not dst.transport.closed:
        close_end(link, to_side, error.ConnectionDone())
    reader.drain()
    good = list(records[:first_bad])
    d = reader.delivered()
    if mode == "consumer":
        exp = b"".join(good)
        if d != exp[:len(d)] or len(d) > len(exp):
            viol.append(dict(oracle="no-altered-record", sig="%s:consumer" % name,
                             msg="%s %r: consumer received %d bytes, only %d precede the manipulation" % (name, info, len(d), len(exp))))
        if reader.consumer_result and reader.consumer_result[0][0] == "ok" and first_bad < len(records) and sum(len(r) for r in good) < sum(len(r) for r in records):
            viol.append(dict(oracle="reads-fail", sig="%s:consumer-ok" % name, msg="%s %r: consumer Deferred succeeded: %r" % (name, info, reader.consumer_result)))
        if not reader.consumer_result:
            viol.append(dict(oracle="reads-fail", sig="%s:consumer-pending" % name, msg="%s %r: connection lost but the consumer Deferred never fired" % (name, info)))
    else:
        if d != good[:len(d)] or len(d) > len(good):
            viol.append(dict(oracle="no-altered-record", sig="%s:records" % name,
                             msg="%s %r: reader got %d records %r..., only the first %d are unmanipulated" % (name, info, len(d), [x[:8] for x in d[-2:]], len(good))))
        if complete_at is not None and d != good:
            viol.append(dict(oracle="prefix-delivered", sig="%s:lost-good" % name, msg="%s %r: %d good records precede the manipulation, reader got %d" % (name, info, len(good), len(d))))
        if mode == "waiting" and len(reader.got) + len(reader.failed) != len(records) + 1:
            viol.append(dict(oracle="reads-fail", sig="%s:pending-read" % name,
                             msg="%s %r: after the loss %d reads are still pending" % (name, info, len(records) + 1 - len(reader.got) - len(reader.failed))))
    if dst.state == "records" and complete_at is not None:
        viol.append(dict(oracle="drop-on-tamper", sig="%s:state" % name, msg="%s %r: state still 'records' after the manipulated record" % (name, info)))
    for v in viol:
        v["case"] = dict(records=[len(r) for r in records], direction=direction, mode=mode, op=name, info=list(info), chunking=chunking)
    return name, viol, (name, dropped_at is not None, len(d) if mode != "consumer" else len(d))


def enumerate_manipulations(chk):
    tasks = []
    sets = [("small", SMALL, False)]
    if chk.tier != "quick":
        sets.append(("big", BIG, True))
    else:
        sets.append(("big", BIG, True))
    for label, records, big in sets:
        for direction in ("s2r", "r2s"):
            if big and direction == "r2s":
                continue
            w, src, dst, link, to_side, stream, bounds = build(records, direction)
            for (name, info, ns, first_bad, complete_at) in manipulations(stream, bounds, chk.tier, big):
                for mode in ("queue", "waiting", "consumer"):
                    if big and mode == "waiting":
                        continue
                    for chunking in (("whole", "split", "split-linger", "bytes") if not big else ("whole", "split", "split-linger")):
                        if chunking == "split-linger" and not complete_at:
                            continue
                        if chk.tier == "quick" and chunking == "bytes" and name == "flip" and (info[1] % 3):
                            continue
                        tasks.append((records, direction, mode, name, info, ns, first_bad, complete_at, chunking))
            for j in range(len(records)):
                for mode in ("queue", "consumer"):
                    tasks.append((records, direction, mode, "reflect", (j,), None, j, None, "whole"))
    ctx = mp.get_context("fork")
    viol = []
    keys = set()
    n = 0
    with ctx.Pool(NPROC) as pool:
        for name, vs, k in pool.imap_unordered(run_manip, tasks, chunksize=32):
            n += 1
            keys.add(k)
            viol.extend(vs)
    chk.add_enum("stream-manipulations", n, keys,
                 "every single manipulation of the ciphertext stream of 3-record exchanges (sizes 0/1/17 and 5/70000/0): bit flip at every "
                 "byte (boundary set for the 70000-byte record), delete / replay / swap a record, truncate inside a record, inject a record under a "
                 "wrong key, reflect a record of the opposite direction; x reader mode (queued reads, waiting reads, consumer) x chunking (one "
                 "segment, split at the byte that completes the manipulated frame, the same on a transport that keeps delivering the following "
                 "frames after loseConnection(), byte-by-byte) x both directions; distinct_nontrivial = distinct "
                 "(operation, dropped?, amount delivered) classes", [dict(op=t[3], info=list(t[4]), mode=t[2], chunking=t[8]) for t in tasks[::max(1, len(tasks) // 5)]][:5], viol)


def consumer_resume_cases(chk):
    """records already queued, the transport paused with more ciphertext waiting, and a consumer that calls
    resumeProducing() from inside registerProducer() on a transport that then delivers synchronously"""
    from zope.interface import implementer
    from twisted.internet import interfaces

    @implementer(interfaces.IConsumer)
    class EagerConsumer:
        def __init__(self):
            self.got = []

        def registerProducer(self, producer, streaming):
            self.producer = producer
            producer.resumeProducing()

        def unregisterProducer(self):
            self.producer = None

        def write(self, data):
            self.got.append(bytes(data))
    viol = []
    keys = set()
    n = 0
    records = [rec(i, 3 + i) for i in range(4)]
    for direction in ("s2r", "r2s"):
        for queued in (1, 2, 3):
            for expected in (None, sum(len(r) for r in records)):
                n += 1
                w, src, dst, link, to_side, stream, bounds = build(records, direction)
                cut = bounds[queued - 1][1]
                feed(w, link, to_side, dst, stream[:cut])            # these records wait in _inbound_records
                dst.pauseProducing()
                t = dst.transport
                rest = [stream[cut:]]
                orig = t.resumeProducing

                def resume(orig=orig, rest=rest):
                    orig()
                    if rest:
                        data = rest.pop()
                        feed(w, link, to_side, dst, data)            # the paused socket delivers what it was holding
                t.resumeProducing = resume
                c = EagerConsumer()
                dst.connectConsumer(c, expected)
                if rest:
                    feed(w, link, to_side, dst, rest.pop())
                keys.add((direction, queued, expected is None, tuple(c.got) == tuple(records)))
                if c.got != records[:len(c.got)] or len(c.got) != len(records):
                    viol.append(dict(oracle="exact-records", sig="consumer-resume-in-register",
                                     msg="%d record(s) queued, rest delivered during registerProducer: consumer got records of lengths %r, sent %r" % (
                                         queued, [len(x) for x in c.got], [len(x) for x in records]),
                                     case=dict(direction=direction, queued=queued, expected=expected)))
    chk.add_enum("consumer-resume-during-register", n, keys, "k records queued before the consumer is attached, the transport paused with the remaining ciphertext, "
                 "and a consumer that resumes the producer from inside registerProducer (the transport then delivers synchronously): "
                 "the consumer must still see the records in the order sent", [dict(queued=2, direction="s2r")], viol)


def body_then_records_cases(chk):
    """a file body read through writeToFile(expected=N) followed by further records read with receive_record(), the way the file
    transfer uses one connection: q of the records are already queued when the consumer is attached, the rest arrive later"""
    viol = []
    keys = set()
    n = 0
    records = [rec(i, 4 + i) for i in range(6)]
    for direction in ("s2r", "r2s"):
        for k in (0, 1, 2, 3):                      # the body is exactly the first k records
            for q in range(0, len(records) + 1):     # records already queued when the consumer is attached
                n += 1
                w, src, dst, link, to_side, stream, bounds = build(records, direction)
                cut = bounds[q - 1][1] if q else 0
                if cut:
                    feed(w, link, to_side, dst, stream[:cut])
                sink = io.BytesIO()
                res = []
                dst.writeToFile(sink, sum(len(r) for r in records[:k])).addCallbacks(lambda v: res.append(("ok", v)),
                                                                                    lambda f: res.append(("fail", type(f.value).__name__)))
                for (a, b) in bounds[q:]:
                    feed(w, link, to_side, dst, stream[a:b])
                got, failed = [], []
                for _ in records[k:]:
                    dst.receive_record().addCallbacks(got.append, lambda f: failed.append(type(f.value).__name__))
                keys.add((direction, k, q, sink.getvalue() == b"".join(records[:k]), got == records[k:]))
                if sink.getvalue() != b"".join(records[:k]) or res != [("ok", sum(len(r) for r in records[:k]))]:
                    viol.append(dict(oracle="exact-records", sig="body-then-records:body",
                                     msg="body of %d records, %d queued at attach: consumer got %d bytes, result %r" % (k, q, len(sink.getvalue()), res),
                                     case=dict(direction=direction, body_records=k, queued=q)))
                if got != records[k:] or failed:
                    viol.append(dict(oracle="exact-records", sig="body-then-records:order",
                                     msg="body of %d records, %d queued at attach: the records after the body were read as lengths %r, sent %r (failed %r)" % (
                                         k, q, [len(x) for x in got], [len(x) for x in records[k:]], failed),
                                     case=dict(direction=direction, body_records=k, queued=q)))
    chk.add_enum("body-then-records", n, keys, "6 records; the first k (0..3) are read as a file body through writeToFile(expected), the others with "
                 "receive_record(); q (0..6) records are already queued when the consumer is attached, the rest arrive afterwards, both directions: "
                 "the body is byte-exact and the later records come out whole and in the order sent", [dict(body_records=1, queued=4)], viol)


def long_lived_cases(chk):
    """time passes on an established connection (more than the handshake TIMEOUT, at every point between two records): a faithful
    stream is still delivered whole and in order, nothing drops the connection"""
    from wormhole import transit as _t
    viol = []
    keys = set()
    n = 0
    records = [rec(i, 5 + i) for i in range(3)]
    for direction in ("s2r", "r2s"):
        for mode in ("waiting", "consumer"):
            for k in range(len(records) + 1):
                n += 1
                w, src, dst, link, to_side, stream, bounds = build(records, direction)
                reader = Reader(dst, mode, len(records), sum(len(r) for r in records))
                for i, (a, b) in enumerate(bounds):
                    if i == k:
                        for r in (w.rs, w.rr):
                            CTX.world = w
                            r.advance(_t.TIMEOUT + 1)
                            r.advance(_t.TIMEOUT + 1)
                    if not dst.transport.closed and not dst.transport.disconnecting:
                        feed(w, link, to_side, dst, stream[a:b])
                if k == len(records):
                    for r in (w.rs, w.rr):
                        CTX.world = w
                        r.advance(_t.TIMEOUT + 1)
                got = reader.delivered()
                exp = b"".join(records) if mode == "consumer" else records
                dropped = [c.transport.disconnecting or c.transport.closed for c in (src, dst)]
                keys.add((direction, mode, k, got == exp, tuple(dropped)))
                if got != exp or any(dropped) or (mode == "consumer" and reader.consumer_result != [("ok", len(exp))]):
                    viol.append(dict(oracle="exact-records", sig="idle-time:%s" % mode,
                                     msg="%s, %s reader: %.0f s pass before record %d of a faithful stream: delivered %r of %d records, connection dropped by %s" % (
                                         direction, mode, _t.TIMEOUT + 1, k, (len(got) if mode != "consumer" else len(got)), len(records),
                                         [("sender", "receiver")[i] for i, d in enumerate(dropped) if d] or "nobody"),
                                     case=dict(direction=direction, mode=mode, k=k)))
    chk.add_enum("long-lived-connection", n, keys, "on an established connection more than transit.TIMEOUT seconds pass (all due timers of both "
                 "parties fire) before record k, k = 0..3, both directions, receive_record and consumer modes: the faithful stream is still "
                 "delivered and the connection stays up", [dict(direction="s2r", mode="waiting", k=1)], viol)


def run(chk):
    chk.assumptions += [
        "the two Connections are obtained by running the real handshake over the simulated network (W2)",
        "an exception escaping dataReceived is treated as Twisted treats it: the connection is lost",
        "record sizes are a boundary alphabet (0,1,5,17,70000), not arbitrary sizes up to 2^32",
    ]
    for sc in chunk_scenarios(chk.tier):
        if getattr(chk, "only", None) and chk.only not in sc.name:
            continue
        res = explore(sc, log=chk.log if os.environ.get("VERIF_VERBOSE") else None)
        chk.add_result(res)
    if not getattr(chk, "only", None):
        consumer_resume_cases(chk)
        long_lived_cases(chk)
        body_then_records_cases(chk)
        enumerate_manipulations(chk)


def replay(body):
    c = body.get("case")
    if isinstance(c, dict) and "op" in c:
        records = SMALL if c["records"] == [len(r) for r in SMALL] else BIG
        w, src, dst, link, to_side, stream, bounds = build(records, c["direction"])
        for (name, info, ns, first_bad, complete_at) in list(manipulations(stream, bounds, "thorough", records is BIG)) + [
                ("reflect", (j,), None, j, None) for j in range(len(records))]:
            if name == c["op"] and list(info) == c["info"]:
                _, vs, k = run_manip((records, c["direction"], c["mode"], name, info, ns, first_bad, complete_at, c["chunking"]))
                print("class:", k)
                for v in vs:
                    print("VIOLATION-REPLAYED", v["oracle"], v["sig"], v["msg"])
                return 1 if vs else 0
        print("case not found")
        return 2
    for sc in chunk_scenarios(body.get("tier", "quick")):
        if sc.name == body["scenario"]:
            w, v = run_linear(sc.factory, [tuple(e) for e in body["events"]])
            for x in v:
                print("VIOLATION-REPLAYED oracle=%s sig=%s: %s" % (x["oracle"], x["sig"], x["msg"]))
            return 1 if v else 0
    return 2
