"""Shared pieces for the W1 (mailbox world) properties."""
import copy
import os

from ..core.explore import Scenario, explore, run_linear
from ..env.mailbox import MailboxWorld

CODE = "4-purple-sausages"


def seed():
    return int(os.environ.get("VERIF_SEED", "0") or 0)


def mk(name, cfg, **kw):
    s = seed()

    def factory():
        return MailboxWorld(cfg, s)
    sc = Scenario(name, factory, **kw)
    sc.cfg = cfg
    return sc


def msgs(app):
    return [v for k, v in app.obs if k == "msg"]


def run_scenarios(chk, scns):
    for sc in scns:
        if getattr(chk, "only", None) and chk.only not in sc.name:
            continue
        res = explore(sc, log=chk.log if os.environ.get("VERIF_VERBOSE") else None)
        chk.add_result(res)


def replay(body, scns):
    for sc in scns:
        if sc.name == body["scenario"]:
            w, v = run_linear(sc.factory, [tuple(e) for e in body["events"]])
            for c in w.clients:
                print("client %d observed: %r" % (c.ci, c.app.obs))
                print("client %d sent: %r api_errors: %r" % (c.ci, c.app.sent, c.app.api_errors))
            print("logged errors:", w.errors)
            print("escaped:", w.escaped)
            for x in v:
                print("VIOLATION-REPLAYED oracle=%s sig=%s: %s" % (x["oracle"], x["sig"], x["msg"]))
            return 1 if v else 0
    print("unknown scenario", body["scenario"])
    return 2


W1_ASSUMPTIONS = [
    "mailbox server = installed wormhole_mailbox_server 0.8.0 run in-process (clock, mailbox-id and nameplate choice made deterministic)",
    "WebSocket/TCP modelled as per-connection FIFO queues; a drop discards both queues; ClientService always offers reconnection",
    "Autobahn, ClientService and the TCP stack are replaced by harness stand-ins (FakeClientService/FakeWS); stop() closes reading at once (plain TCP)",
    "SPAKE2 memoised on (password, id, entropy, peer message); randomness from a seeded counter stream",
    "server 'ack' responses are not delivered (the client's handler is a no-op) unless the scenario says acks=True",
]
