"""C12 - dilation L2 framing / encryption / encoding is lossless and rejects unkeyed input."""
import multiprocessing as mp
import os

from twisted.internet import error

from ..core import canon
from ..core.explore import Scenario, explore, run_linear, NPROC
from ..env.dilation import DilationWorld, HOSTS, KEY, _noisec
from ..env.simnet import deliver, close_end
from ..env.patches import CTX

from wormhole._dilation.connection import (KCM, Ping, Pong, Open, Data, Close, Ack, encode_record, parse_record,
                                            DilatedConnectionProtocol)
from wormhole._dilation import connector as dconnector

LEVEL = "model_checking"
NMP = 65519     # NOISE_MAX_PAYLOAD


def seed():
    return int(os.environ.get("VERIF_SEED", "0") or 0)


def payload(n, salt=0):
    return bytes(((i * 7 + salt) % 253 for i in range(n)))


IDS = [0, 1, 2 ** 31, 2 ** 32 - 1]
NAMES = ["proto", "", "sub-é-中", "a" * 200, "x/y z"]


def record_alphabet():
    recs = []        # (KCM is part of the handshake; an honest peer never sends it on a selected connection)
    for pid in (b"\x00\x00\x00\x00", b"\xff\xfe\xfd\xfc", b"ping"):
        recs += [Ping(pid), Pong(pid)]
    for a in IDS:
        recs.append(Ack(a))
        for b in IDS:
            recs.append(Close(a, b))
            recs.append(Open(a, b, "proto"))
    for nm in NAMES:
        recs.append(Open(5, 7, nm))
    # Data payload lengths so that the encoded record (9-byte header + payload) sits on the Noise packet edges
    for enc_len in (9, 10, NMP - 1, NMP, NMP + 1, 2 * NMP - 1, 2 * NMP, 2 * NMP + 1):
        recs.append(Data(3, 1, payload(enc_len - 9, enc_len % 251)))
    return recs


# ---------------------------------------------------------------- W4: encode/parse
def part_encode(chk):
    viol = []
    keys = set()
    n = 0
    for r in record_alphabet():
        n += 1
        try:
            enc = encode_record(r)
            back = parse_record(enc)
        except Exception as e:
            viol.append(dict(oracle="encode-parse", sig="%s:raises:%s" % (type(r).__name__, type(e).__name__),
                             msg="%s: encode/parse raised %r" % (repr(r)[:80], e)))
            continue
        keys.add((type(r).__name__, len(enc)))
        if back != r or type(back) is not type(r):
            viol.append(dict(oracle="encode-parse", sig=type(r).__name__, msg="%r -> %d bytes -> %r" % (repr(r)[:80], len(enc), repr(back)[:80])))
    chk.add_enum("encode-parse", n, keys, "encode_record/parse_record round trip over all 7 record types, ids/seqnums {0,1,2^31,2^32-1}, subprotocol names "
                 "(ASCII, empty, non-ASCII, long), Data payloads whose encoding is 9,10,65518..65520,2*65519-1..2*65519+1 bytes",
                 [repr(r)[:60] for r in record_alphabet()[::9]], viol)


# ---------------------------------------------------------------- L2 fixture
class Pair:
    """two real Managers/Connectors with one TCP link between their L2 protocols; everything
    after conn_ok is driven by hand so that single bytes can be manipulated"""

    def __init__(self, upto="selected", seed_offset=0):
        cfg = dict(explored=("mbox", "conn_ok", "deliver", "close", "app", "turn"), no_listen={1: True})
        self.w = w = DilationWorld(cfg, seed() + seed_offset)
        # mailbox exchange, listener, connection attempt -- but no bytes delivered yet
        for _ in range(200):
            en = [e for e in w.enabled() if e[0] in ("mbox", "turn", "conn_ok")]
            if not en or w.net.links:
                break
            w.apply(en[0])
        assert len(w.net.links) == 1, (len(w.net.links), w.errors)
        self.link = w.net.links[0]
        # side index of each manager on the link
        self.pside = {}
        for i in (0, 1):
            (l, sd, p) = w.protos(i)[0]
            self.pside[i] = sd
        self.proto = {i: w.protos(i)[0][2] for i in (0, 1)}
        self.got = {0: [], 1: []}
        self.candidates = {0: 0, 1: 0}
        for i in (0, 1):
            m = w.sides[i].manager
            m.got_record = (lambda r, i=i: self.got[i].append(r))
            conn = m._connector
            orig = conn.add_candidate

            def counted(c, i=i, orig=orig):
                self.candidates[i] += 1
                return orig(c)
            conn.add_candidate = counted
        if upto == "selected":
            self.handshake()

    def pending(self, to):
        return b"".join(self.link.queues[1 - self.pside[to]])

    def feed(self, to, n=None):
        """deliver n (default all) pending bytes to manager `to`'s protocol"""
        sd = self.pside[to]
        n = self.link.pending(sd) if n is None else n
        CTX.world = self.w
        CTX.client = "d%d" % to
        try:
            deliver(self.link, sd, n)
        except Exception as e:
            self.w.errors.append((type(e).__name__, str(e)[:80], "dataReceived"))
            close_end(self.link, sd, error.ConnectionLost())

    def turns(self):
        w = self.w
        for _ in range(100):
            en = [e for e in w._all_enabled() if e[0] == "turn"]
            if not en:
                break
            w._do(en[0])

    def handshake(self):
        for _ in range(20):
            moved = False
            for to in (0, 1):
                if self.link.pending(self.pside[to]) and not self.link.ends[self.pside[to]].transport.closed:
                    self.feed(to)
                    moved = True
            self.turns()
            if not moved:
                break
        assert self.proto[0]._manager is not None and self.proto[1]._manager is not None, "L2 pair did not get selected: %r" % (self.w.errors,)
        self.got = {0: [], 1: []}

    def dropped(self, i):
        t = self.link.ends[self.pside[i]].transport
        return t.lose_calls > 0 or t.closed


def part_roundtrip(chk):
    viol = []
    keys = set()
    n = 0
    for direction in ((0, 1), (1, 0)):
        src, dst = direction
        p = Pair()
        sent = []
        for r in record_alphabet():
            n += 1
            p.proto[src].send_record(r)
            sent.append(r)
            wire = len(p.pending(dst))
            p.feed(dst)
            keys.add((src, type(r).__name__, wire))
            if p.got[dst] != sent:
                viol.append(dict(oracle="l2-roundtrip", sig=type(r).__name__,
                                 msg="%d->%d: sent %s (wire %d bytes), peer manager has %d records, last %s" % (
                                     src, dst, repr(r)[:60], wire, len(p.got[dst]), repr(p.got[dst][-1:])[:60])))
                break
        if p.w.errors or p.dropped(dst):
            viol.append(dict(oracle="l2-roundtrip", sig="dropped-honest", msg="honest records dropped the connection: %r" % (p.w.errors,)))
    chk.add_enum("l2-roundtrip", n, keys, "every record of the alphabet sent through a real DilatedConnectionProtocol pair (real handshake, Noise stand-in) in "
                 "both directions; the peer Manager.got_record sequence equals what was sent", ["Data(3,1,<65510 bytes>)", "Open(0,4294967295,'proto')"], viol)


# ---------------------------------------------------------------- chunking by path merging
STREAM_RECORDS = [Open(1, 0, "p"), Data(1, 1, payload(3)), Data(1, 2, payload(2 * NMP + 1 - 9)), Ack(7), Close(1, 3)]


class ChunkWorld:
    def __init__(self, direction, cuts=None):
        self.src, self.dst = direction
        self.p = Pair()
        for r in STREAM_RECORDS:
            self.p.proto[self.src].send_record(r)
        sd = self.p.pside[self.dst]
        self.stream = self.p.link.take(sd, self.p.link.pending(sd))
        self.pos = 0
        self.cuts = cuts if cuts is not None else list(range(1, len(self.stream) + 1))
        self.viol = []
        # frame ends
        self.ends = []
        pos = 0
        while pos < len(self.stream):
            ln = int.from_bytes(self.stream[pos:pos + 4], "big")
            pos += 4 + ln
            self.ends.append(pos)

    def enabled(self):
        return [("feed", c) for c in self.cuts if c > self.pos]

    def apply(self, ev):
        c = ev[1]
        proto = self.p.proto[self.dst]
        CTX.world = self.p.w
        CTX.client = "d%d" % self.dst
        try:
            proto.dataReceived(self.stream[self.pos:c])
        except Exception as e:
            self.p.w.errors.append((type(e).__name__, str(e)[:80], "dataReceived"))
        self.pos = c
        complete = [r for r, e in zip(STREAM_RECORDS, self.ends) if e <= self.pos]
        if self.p.got[self.dst] != complete:
            self.viol.append(dict(oracle="l2-chunking", sig="after-%d" % len(complete),
                                  msg="after %d of %d bytes the manager has %d records, %d complete frames are on the wire" % (
                                      self.pos, len(self.stream), len(self.p.got[self.dst]), len(complete))))

    def key(self):
        proto = self.p.proto[self.dst]
        fr = proto._record._framer
        nz = proto._noise
        return canon.key_of((self.pos, fr._buffer, nz._recv.n, len(self.p.got[self.dst]), tuple(self.p.w.errors), self.p.dropped(self.dst)))

    def violations(self):
        return list(self.viol)

    def final_violations(self):
        if self.p.got[self.dst] != STREAM_RECORDS or self.p.w.errors or self.p.dropped(self.dst):
            return [dict(oracle="l2-chunking", sig="final", msg="final: %d records, errors %r" % (len(self.p.got[self.dst]), self.p.w.errors))]
        return []

    def outcome(self):
        return len(self.p.got[self.dst])


def boundary(ends, total):
    cuts = set([total])
    start = 0
    for e in ends:
        for base in (start, start + 4, e - 16, e):
            for d in (-2, -1, 0, 1, 2):
                if 0 < base + d <= total:
                    cuts.add(base + d)
        k = start + 4
        while k < e:
            for d in (-1, 0, 1):
                if start < k + d < e:
                    cuts.add(k + d)
            k += 65535
        start = e
    return sorted(cuts)


def chunk_scenarios(tier):
    probe = ChunkWorld((0, 1))
    cuts = boundary(probe.ends, len(probe.stream))
    S = []
    for direction in ((0, 1), (1, 0)):
        def fac(direction=direction, cuts=cuts):
            return ChunkWorld(direction, cuts)
        S.append(Scenario("l2-chunk-boundary-%d%d" % direction, fac, max_depth=len(cuts) + 2))
    return S


# ---------------------------------------------------------------- rejections
def run_reject(task):
    kind, victim, stage, i, bit = task
    viol = []
    p = Pair(upto="raw")
    other = 1 - victim
    # stages, in wire order: each entry = who receives next
    order = [("prologue", 0), ("prologue", 1), ("handshake", 1), ("handshake+kcm", 0), ("kcm", 1), ("record", 0), ("record", 1)]
    progress = 0
    hit = None
    for (st, to) in order:
        if st == "record":
            src = 1 - to
            if p.proto[src]._manager is None or p.dropped(src):
                continue
            p.proto[src].send_record(Data(9, 9, b"payload-after-selection"))
        if p.dropped(to) or not p.link.pending(p.pside[to]):
            continue
        if (st, to) == (stage, victim):
            data = bytearray(p.pending(to))
            q = p.link.queues[1 - p.pside[to]]
            before_got = len(p.got[to])
            before_cand = p.candidates[to]
            if kind == "flip":
                if i >= len(data):
                    return [], (kind, stage, "n/a")
                data[i] ^= (1 << bit)
                new = bytes(data)
            elif kind == "truncate":
                new = bytes(data[:i])
            elif kind == "wrong-psk":
                # a frame produced by a party without the dilation key: re-encrypt garbage of the same length
                new = bytes(data[:4]) + bytes((b ^ 0x5a) for b in data[4:])
            elif kind == "other-connection":
                p2 = Pair(upto="raw", seed_offset=1000)     # other ephemeral keys: really another connection
                # run the second pair to the same stage and steal its bytes
                for (st2, to2) in order:
                    if (st2, to2) == (stage, victim):
                        break
                    if st2 == "record":
                        continue
                    if p2.link.pending(p2.pside[to2]):
                        p2.feed(to2)
                        p2.turns()
                new = p2.pending(victim)
                if not new:
                    return [], (kind, stage, "n/a")
            q.clear()
            q.append(new)
            complete = True
            if kind == "truncate":
                complete = False
            elif st != "prologue" and kind == "flip":
                # the unit may hold several frames: find the one (as framed on the wire now) that holds byte i
                pos = 0
                while pos < len(new):
                    ln = int.from_bytes(new[pos:pos + 4].ljust(4, b"\0"), "big")
                    end = pos + 4 + ln
                    if pos <= i < end or end > len(new):
                        complete = end <= len(new)
                        break
                    pos = end
            p.feed(to)
            p.turns()
            if kind == "truncate":
                close_end(p.link, p.pside[to], error.ConnectionDone())
                p.turns()
            hit = (to, before_got, before_cand, complete)
            break
        p.feed(to)
        p.turns()
    if hit is None:
        return [], (kind, stage, "not-reached")
    to, before_got, before_cand, complete = hit
    case = dict(kind=kind, victim=victim, stage=stage, offset=i, bit=bit)
    # nothing from the corrupted unit may reach the manager / connector
    if len(p.got[to]) != before_got:
        viol.append(dict(oracle="reject", sig="%s:%s:record-surfaced" % (kind, stage),
                         msg="%s at %s byte %d (to manager %d): a record reached Manager.got_record: %r" % (kind, stage, i, to, p.got[to][before_got:]), case=case))
    if p.candidates[to] != before_cand and stage in ("prologue", "handshake", "handshake+kcm", "kcm"):
        if not (kind == "flip" and stage == "handshake+kcm" and False):
            viol.append(dict(oracle="reject", sig="%s:%s:became-candidate" % (kind, stage),
                             msg="%s at %s byte %d: the connection was offered to the Connector as a candidate" % (kind, stage, i), case=case))
    if complete and not p.dropped(to):
        viol.append(dict(oracle="reject", sig="%s:%s:not-dropped" % (kind, stage),
                         msg="%s at %s byte %d (to manager %d): connection still up" % (kind, stage, i, to), case=case))
    return viol, (kind, stage, p.dropped(to))


def run_split(task):
    """an honest unit (prologue, handshake frame, KCM, record) arrives in two TCP segments cut at offset i"""
    victim, stage, i = task
    p = Pair(upto="raw")
    order = [("prologue", 0), ("prologue", 1), ("handshake", 1), ("handshake+kcm", 0), ("kcm", 1), ("record", 0), ("record", 1)]
    done = False
    for (st, to) in order:
        if st == "record":
            src = 1 - to
            if p.proto[src]._manager is None or p.dropped(src):
                continue
            p.proto[src].send_record(Data(9, 9, b"payload-after-selection"))
        if p.dropped(to) or not p.link.pending(p.pside[to]):
            continue
        if (st, to) == (stage, victim):
            n = p.link.pending(p.pside[to])
            if i >= n:
                return [], (stage, "n/a")
            p.feed(to, i)
            p.turns()
            if not p.dropped(to):
                p.feed(to)
            p.turns()
            done = True
            continue
        p.feed(to)
        p.turns()
    viol = []
    case = dict(kind="split", victim=victim, stage=stage, offset=i, bit=0)
    ok = p.proto[0]._manager is not None and p.proto[1]._manager is not None and not p.dropped(0) and not p.dropped(1)
    got_ok = [r for r in p.got[0] + p.got[1] if isinstance(r, Data)]
    if not ok or len(got_ok) != 2 or p.w.errors:
        viol.append(dict(oracle="l2-fragmentation", sig="split:%s" % stage,
                         msg="%s for manager %d delivered in two segments cut at byte %d: selected=%s dropped=%s/%s records=%d errors=%r" % (
                             stage, victim, i, [p.proto[k]._manager is not None for k in (0, 1)], p.dropped(0), p.dropped(1), len(got_ok), p.w.errors),
                         case=case))
    return viol, (stage, ok)


def part_split(chk):
    sizes = {("prologue", 0): 47, ("prologue", 1): 45, ("handshake", 1): 52, ("handshake+kcm", 0): 73, ("kcm", 1): 21,
             ("record", 0): 52, ("record", 1): 52}
    tasks = [(victim, stage, i) for (stage, victim), n in sizes.items() for i in range(1, n)]
    ctx = mp.get_context("fork")
    viol = []
    keys = set()
    n = 0
    with ctx.Pool(NPROC) as pool:
        for v, k in pool.imap_unordered(run_split, tasks, chunksize=16):
            n += 1
            keys.add(k)
            viol.extend(v)
    chk.add_enum("l2-handshake-fragmentation", n, keys, "every two-segment fragmentation (cut at every byte offset) of every unit of an honest L2 set-up: both "
                 "prologues, both Noise handshake frames, both KCMs and a Data record in each direction; the connection must get selected on both sides, "
                 "stay up, and deliver the records", [list(t) for t in tasks[::max(1, len(tasks) // 4)]][:4], viol)


def part_reject(chk):
    tasks = []
    sizes = {("prologue", 0): 47, ("prologue", 1): 45, ("handshake", 1): 52, ("handshake+kcm", 0): 73, ("kcm", 1): 21,
             ("record", 0): 4 + 9 + 23 + 16, ("record", 1): 4 + 9 + 23 + 16}
    for (stage, victim), n in sizes.items():
        for i in range(n):
            bits = range(8) if chk.tier != "quick" else [(i + seed()) % 8]
            for b in bits:
                tasks.append(("flip", victim, stage, i, b))
            if i > 0:
                tasks.append(("truncate", victim, stage, i, 0))
        if stage != "prologue":
            tasks.append(("wrong-psk", victim, stage, 0, 0))
            tasks.append(("other-connection", victim, stage, 0, 0))
    ctx = mp.get_context("fork")
    viol = []
    keys = set()
    n = 0
    with ctx.Pool(NPROC) as pool:
        for v, k in pool.imap_unordered(run_reject, tasks, chunksize=16):
            n += 1
            keys.add(k)
            viol.extend(v)
    chk.add_enum("l2-rejections", n, keys, "on a fresh real L2 pair: a bit flip at every byte of every unit on the wire (both prologues, both Noise handshake "
                 "frames, both KCMs, a Data record in each direction), a truncation at every offset followed by EOF, the unit replaced by bytes not "
                 "produced with the dilation key, and the unit replaced by the same unit of another connection; oracle: nothing reaches "
                 "Manager.got_record / Connector.add_candidate and loseConnection is called once the (mis)framed unit is complete",
                 [list(t) for t in tasks[::max(1, len(tasks) // 4)]][:4], viol)
    # wrong relay reply
    from wormhole._dilation.connection import _Framer, Disconnect
    viol = []
    keys = set()
    n = 0

    class T:
        def __init__(self):
            self.w = []

        def write(self, d):
            self.w.append(d)
    from zope.interface import directlyProvides
    from twisted.internet.interfaces import ITransport
    FRAME = b"\x00\x00\x00\x03abc"
    tokens_by_reply = {}
    for reply in (b"ok\n", b"ok\r\n", b"OK\n", b"o", b"ok", b"okay\n", b"\n", b"bad handshake\n", b"ok\nIN", b"ok\nIN\n\n", b"x" * 3, b"impatient\n",
                  b"ok\nIN\n\n" + FRAME, b"ok\nIN\n\n" + FRAME + FRAME[:5]):
        for chunked in [False, True] + [("split", k) for k in range(1, len(reply))]:
            t = T()
            directlyProvides(t, ITransport)
            f = _Framer(t, b"OUT\n\n", b"IN\n\n")
            f.use_relay(b"please relay X for side Y\n")
            f.connectionMade()
            n += 1
            res = []
            try:
                if isinstance(chunked, tuple):
                    pieces = [reply[:chunked[1]], reply[chunked[1]:]]
                else:
                    pieces = [reply] if not chunked else [reply[i:i + 1] for i in range(len(reply))]
                for pc in pieces:
                    res.extend(list(f.add_and_parse(pc)))
                outcome = "accepted" if b"OUT\n\n" in t.w else "waiting"
            except Disconnect:
                outcome = "disconnect"
            keys.add((reply, outcome))
            # what the framer hands to its caller must not depend on how TCP cut the stream
            toks = (outcome, tuple(type(x).__name__ + (":" + bytes(x.frame).hex() if hasattr(x, "frame") else "") for x in res))
            first = tokens_by_reply.setdefault(reply, (chunked, toks))
            if first[1] != toks:
                viol.append(dict(oracle="relay-reply", sig="chunking-dependent", case=repr(reply),
                                 msg="relay reply + following bytes %r: delivered %s the framer yields %r, delivered %s it yields %r" % (
                                     reply, first[0], first[1], chunked, toks)))
            good = reply.startswith(b"ok\n") and b"IN\n\n".startswith(reply[3:7])
            prefix = b"ok\n".startswith(reply)
            expect = "accepted" if good else ("waiting" if prefix else "disconnect")
            if outcome != expect:
                viol.append(dict(oracle="relay-reply", sig=repr(reply), msg="relay reply %r (chunked=%s): framer %s, expected %s" % (reply, chunked, outcome, expect),
                                 case=repr(reply)))
    chk.add_enum("relay-replies", n, keys, "_Framer in want_relay state fed correct / wrong / partial relay replies whole and byte-by-byte: only an exact "
                 "'ok\\n' is accepted, a diverging reply raises Disconnect at the first newline or at full length", ["ok\\n", "okay\\n"], viol)


def run(chk):
    chk.assumptions += [
        "Noise is the stand-in of DESIGN.md section 3.5 (NNpsk0 / X25519 / ChaChaPoly / BLAKE2s with `cryptography`), which raises NoiseInvalidMessage on any "
        "authentication failure, malformed handshake message or over-long message; wire interoperability with the `noiseprotocol` package is not established",
        "records are observed at Manager.got_record and Connector.add_candidate (instance wrappers installed by the harness)",
        "payload sizes are a boundary alphabet up to 2*65519+1 encoded bytes",
    ]
    part_encode(chk)
    part_roundtrip(chk)
    for sc in chunk_scenarios(chk.tier):
        res = explore(sc, log=chk.log if os.environ.get("VERIF_VERBOSE") else None)
        chk.add_result(res)
    part_split(chk)
    part_reject(chk)


def replay(body):
    c = body.get("case")
    if isinstance(c, dict) and c.get("kind") == "split":
        v, k = run_split((c["victim"], c["stage"], c["offset"]))
        for x in v:
            print("VIOLATION-REPLAYED", x["oracle"], x["sig"], x["msg"])
        return 1 if v else 0
    if isinstance(c, dict) and "stage" in c:
        v, k = run_reject((c["kind"], c["victim"], c["stage"], c["offset"], c["bit"]))
        print("class:", k)
        for x in v:
            print("VIOLATION-REPLAYED", x["oracle"], x["sig"], x["msg"])
        return 1 if v else 0
    for sc in chunk_scenarios("quick"):
        if sc.name == body.get("scenario"):
            w, v = run_linear(sc.factory, [tuple(e) for e in body["events"]])
            for x in v:
                print("VIOLATION-REPLAYED", x["oracle"], x["sig"], x["msg"])
            return 1 if v else 0
    print(body.get("message"))
    return 2
