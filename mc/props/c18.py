"""C18 - application events arrive once each and in causal order; get_*() after closed fail."""
from .w1common import CODE, mk, msgs, run_scenarios, replay as _replay, W1_ASSUMPTIONS

LEVEL = "model_checking"
RANK = {"code": 0, "key": 1, "verifier": 2, "versions": 3, "msg": 3, "closed": 4}


def mon_order(w):
    fifo = not (w.cfg.get("reorder") or w.cfg.get("dup"))
    for c in w.clients:
        obs = [(k, v) for k, v in c.app.obs if k in RANK]
        seen = {}
        last = -1
        for i, (k, v) in enumerate(obs):
            if k != "msg":
                if k in seen:
                    w.flag("once", "c%d:%s" % (c.ci, k), "client %d saw %s twice: %r" % (c.ci, k, obs))
                seen[k] = i
            r = RANK[k]
            if r < last:
                w.flag("order", "c%d:%s" % (c.ci, k), "client %d saw %s out of causal order: %r" % (c.ci, k, [x for x, _ in obs]))
            last = max(last, r)
            if k in ("versions", "msg") and "verifier" not in seen:
                w.flag("verifier-first", "c%d:%s" % (c.ci, k), "client %d got %s before the verifier: %r" % (c.ci, k, [x for x, _ in obs]))
            if k in ("verifier",) and "key" not in seen:
                w.flag("order", "c%d:verifier-before-key" % c.ci, "verifier before key: %r" % ([x for x, _ in obs],))
            if k == "key" and "code" not in seen:
                w.flag("order", "c%d:key-before-code" % c.ci, "key before code: %r" % ([x for x, _ in obs],))
            if fifo and k == "msg" and "versions" not in seen:
                w.flag("versions-first", "c%d" % c.ci,
                       "order-preserving server, but client %d got a message before versions: %r" % (c.ci, [x for x, _ in obs]))
        peer = w.clients[1 - c.ci] if len(w.clients) > 1 else None
        if peer is not None:
            got = msgs(c.app)
            if got != peer.app.sent[:len(got)]:
                w.flag("messages", "c%d" % c.ci, "client %d received %r, peer sent %r" % (c.ci, got, peer.app.sent))
        # explicit get_*() calls
        gm = []
        for slot in c.app.extra:
            if not (isinstance(slot, list) and slot[0].startswith("get:")):
                continue
            what, n, state, val, when = slot
            if when == "late" and state == "ok":
                w.flag("get-after-closed", "c%d:%s" % (c.ci, what),
                       "client %d: %s issued after closed returned a value %r" % (c.ci, what, val))
            if state == "ok":
                if what == "get:code" and val != CODE:
                    w.flag("get-value", "c%d:code" % c.ci, "get_code -> %r" % (val,))
                if what == "get:message":
                    gm.append(val)
        if gm and peer is not None and gm != peer.app.sent[:len(gm)]:
            w.flag("get-message-seq", "c%d" % c.ci, "get_message() results %r vs sent %r" % (gm, peer.app.sent))
        late = [e for e in c.app.after_closed if e[0] in ("welcome", "code", "key", "verifier", "versions", "msg") or e[0].startswith("got:")]
        if late:
            w.flag("nothing-after-closed", "c%d:%s" % (c.ci, late[0][0]), "client %d: %r after closed" % (c.ci, late))


def mon_closed_once(w):
    """the only clause checked against a server that sends a malformed response (outside the property's quantifier for the
    ordering clauses): the closed notification is delivered at most once, and its verdict does not change afterwards"""
    for c in w.clients:
        cl = [v for k, v in c.app.obs if k == "closed"]
        if len(cl) > 1 or c.app.closed > 1:
            w.flag("once", "c%d:closed" % c.ci, "client %d was told closed %d times: %r" % (c.ci, max(len(cl), c.app.closed), cl))


GET_RANK = {"get:code": 0, "get:key": 1, "get:verifier": 2, "get:versions": 3, "get:message": 3}


def mon_get_order(w):
    """explicit get_*() calls: if get_A() was called before get_B() and A causally precedes B, A's Deferred fires first"""
    for c in w.clients:
        slots = [sl for sl in c.app.extra if isinstance(sl, list) and sl[0] in GET_RANK]
        fired = []
        for k, v in c.app.obs:
            if k.startswith("got:") or k.startswith("goterr:"):
                fired.append(v[0])          # slot number
        for pos, n in enumerate(fired):
            b = [sl for sl in slots if sl[1] == n]
            if not b or b[0][2] != "ok":
                continue
            b = b[0]
            for a in slots:
                if a[1] < b[1] and GET_RANK[a[0]] < GET_RANK[b[0]] and a[4] == "early" and a[1] not in fired[:pos]:
                    w.flag("get-order", "c%d:%s-before-%s" % (c.ci, b[0], a[0]),
                           "client %d: %s (called later) fired before %s (called earlier, causally first); firing order %r" % (
                               c.ci, b[0], a[0], fired))


OBSERVER = {"versions": "_version_observer", "verifier": "_verifier_observer", "key": "_key_observer", "code": "_code_observer"}


def get_guard(w, c, step):
    if step[0] == "get_fired":
        from wormhole.observer import NoResult
        return getattr(c.w, OBSERVER[step[1]])._result is not NoResult
    if step[0] == "get_late":
        return c.app.closed > 0
    return True


def get_hook(w, c, step):
    if step[0] == "get_fired":
        w._get(c, step[1])
        return True
    return False


def fin_gets(w):
    out = []
    for c in w.clients:
        if c.app.closed:
            for slot in c.app.extra:
                if isinstance(slot, list) and slot[0].startswith("get:") and slot[2] == "pending":
                    out.append(dict(oracle="get-hangs", sig="c%d:%s:%s" % (c.ci, slot[0], slot[4]),
                                    msg="client %d is closed and quiescent but %s (issued %s) never fired" % (c.ci, slot[0], slot[4])))
            if c.app.mode != "delegate" and c.app.auto_get:
                # every armed get_* either fired or failed
                kinds = set(k for k, _ in c.app.obs)
                for what in ("code", "key", "verifier", "versions"):
                    if what not in kinds and ("err:" + what) not in kinds:
                        out.append(dict(oracle="get-hangs", sig="c%d:auto:%s" % (c.ci, what),
                                        msg="client %d closed; outstanding get_%s neither fired nor failed: %r" % (c.ci, what, c.app.obs)))
                if "err:msg" not in kinds:
                    out.append(dict(oracle="get-hangs", sig="c%d:auto:msg" % c.ci,
                                    msg="client %d closed; outstanding get_message never failed: %r" % (c.ci, c.app.obs)))
        wants = any(s[0] == "close" for t in c.threads for s in t)
        if wants and c.app.closed != 1:
            out.append(dict(oracle="closed-eventually", sig="c%d" % c.ci, msg="client %d never closed: %r" % (c.ci, c.app.obs)))
    return out


def cfg(mode="deferred", n0=1, n1=2, fine=(0,), drops=(0, 0), reorder=0, dup=0, explored=None, gets=None, peer_close=False,
        close0=True):
    t0 = [[("set_code", CODE)] + [("send", b"a%d" % i) for i in range(n0)]]
    if close0:
        t0.append([("close",)])
    c0 = dict(threads=t0, drops=drops[0], mode=mode)
    if gets:
        c0["auto_get"] = False
        c0["threads"] = t0 + gets
    t1 = [[("set_code", CODE)] + [("send", b"b%d" % i) for i in range(n1)]]
    if peer_close:
        t1.append([("close",)])
    return dict(clients=[c0, dict(threads=t1, drops=drops[1], mode=mode)],
                explored=explored or ("down", "up", "api", "connect", "drop", "reorder", "dup", "stopfin"),
                coarse=[i for i in (0, 1) if i not in fine], reorder=reorder, dup=dup,
                monitors=[mon_order, mon_get_order], final_monitors=[fin_gets], step_guard=get_guard, api_hook=get_hook)


# get_verifier() early; get_versions() / get_unverified_key() only once the event has happened inside the library, i.e. possibly
# while the earlier Deferreds' callbacks are still waiting in the eventual queue
G3 = [[("get", "verifier")], [("get_fired", "versions")]]
G4 = [[("get", "code"), ("get_fired", "key")]]
G1 = [[("get", "verifier"), ("get", "message")], [("get", "message"), ("get_late", "message"), ("get_late", "versions")]]
G2 = [[("get", "code"), ("get", "key"), ("get_late", "code")], [("get", "message"), ("get", "message"), ("get", "message")]]
TURN = ("down", "up", "api", "connect", "drop", "turn", "stopfin")


def scenarios(tier):
    q = tier == "quick"
    S = []
    S.append(mk("deferred-fine0-close", cfg("deferred", 1, 2, (0,)), max_depth=100, max_states=500000))
    S.append(mk("delegate-fine0-close-reorder", cfg("delegate", 0, 2, (0,), reorder=1, dup=0 if q else 1), max_depth=100, max_states=500000))
    S.append(mk("deferred-gets1-fine0", cfg("deferred", 0, 1 if q else 2, (0,), gets=G1), max_depth=100, max_states=500000))
    S.append(mk("deferred-gets2a-fine0", cfg("deferred", 0, 1, (0,), gets=G2[:1]), max_depth=100, max_states=500000))
    S.append(mk("deferred-gets2b-fine0", cfg("deferred", 0, 2, (0,), gets=G2[1:]), max_depth=100, max_states=500000))
    # several get_message() Deferreds outstanding when the wormhole closes (more gets than messages), and some issued after closed
    G5 = [[("get", "message"), ("get", "message"), ("get", "message"), ("get", "message"), ("get_late", "message"), ("get_late", "message")]]
    S.append(mk("deferred-gets5-many-outstanding", cfg("deferred", 0, 1, (0,), gets=G5), max_depth=100, max_states=500000))
    S.append(mk("deferred-gets3-turns", cfg("deferred", 0, 0, (0,), gets=G3, explored=TURN, close0=False), max_depth=120, max_states=400000))
    S.append(mk("deferred-gets4-turns", cfg("deferred", 0, 0, (0,), gets=G4, explored=TURN, close0=False), max_depth=120, max_states=400000))
    S.append(mk("deferred-turns-dev2", cfg("deferred", 1, 2, (0, 1), drops=(1, 1), explored=TURN, peer_close=True), dev_bound=2, max_depth=250))
    S.append(mk("delegate-dev2-faults", cfg("delegate", 1, 2, (0, 1), drops=(1, 1), reorder=1, dup=1, peer_close=True), dev_bound=2, max_depth=250))
    # a server that sends one malformed response (fields missing): the wormhole errors out -- still closed exactly once and last,
    # whatever arrives afterwards
    for mode in ("delegate", "deferred"):
        jc = cfg(mode, 1, 1, (0,), explored=("down", "up", "api", "connect", "junk", "stopfin"))
        jc["junk"] = 1
        jc["monitors"] = [mon_closed_once]
        jc["final_monitors"] = []
        S.append(mk("%s-junk-response" % mode, jc, dev_bound=2 if q else 3, max_depth=200))
    if not q:
        S.append(mk("deferred-gets2-fine0", cfg("deferred", 0, 2, (0,), gets=G2), max_depth=100, max_states=4000000))
        S.append(mk("deferred-fine0-close-drop1", cfg("deferred", 1, 2, (0,), drops=(1, 0)), max_depth=120, max_states=4000000))
        S.append(mk("deferred-fine1-peerclose", cfg("deferred", 1, 1, (1,), peer_close=True), max_depth=120, max_states=4000000))
        S.append(mk("deferred-gets1-turns-dev3", cfg("deferred", 0, 2, (0, 1), gets=G1, explored=TURN), dev_bound=3, max_depth=300))
        S.append(mk("deferred-turns-dev3", cfg("deferred", 1, 2, (0, 1), drops=(1, 1), explored=TURN, peer_close=True), dev_bound=3, max_depth=300))
        S.append(mk("delegate-dev3-faults", cfg("delegate", 2, 2, (0, 1), drops=(2, 1), reorder=2, dup=1, peer_close=True), dev_bound=3, max_depth=300))
    return S


def run(chk):
    chk.assumptions += W1_ASSUMPTIONS
    run_scenarios(chk, scenarios(chk.tier))


def replay(body):
    return _replay(body, scenarios(body.get("tier", "quick")))
