"""Harness self-test: a toy world with a known bug must violate, and the
explorer must count the toy state graph exactly."""
from ..core.explore import Scenario, explore
from ..core import canon


class Toy:
    """Two 'threads' each doing read;write of a shared counter (lost update)."""

    def __init__(self):
        self.x = 0
        self.pc = [0, 0]
        self.tmp = [0, 0]

    def enabled(self):
        return [("t", i) for i in (0, 1) if self.pc[i] < 2]

    def apply(self, ev):
        i = ev[1]
        if self.pc[i] == 0:
            self.tmp[i] = self.x
        else:
            self.x = self.tmp[i] + 1
        self.pc[i] += 1

    def key(self):
        return canon.key_of((self.x, tuple(self.pc), tuple(self.tmp)))

    def violations(self):
        return []

    def final_violations(self):
        if self.x != 2:
            return [dict(oracle="lost-update", sig="x", msg="x=%d" % self.x)]
        return []

    def outcome(self):
        return self.x


def run(chk):
    res = explore(Scenario("toy", Toy), nproc=1)
    assert res.violations, "self-test: explorer failed to find the lost update"
    assert len(res.outcomes) == 2, res.outcomes
    res0 = explore(Scenario("toy-dev0", Toy, dev_bound=0), nproc=1)
    assert not res0.violations, "self-test: default schedule must be clean"
    print("selftest ok: toy states=%d transitions=%d" % (res.states, res.transitions))
    import sys
    sys.exit(0)
