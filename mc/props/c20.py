"""C20 - peer connection hints are untrusted: never a crash, only valid hints dialled."""
import itertools
import json
import multiprocessing as mp

from zope.interface import implementer

from ..env import patches
from ..env.patches import CTX
from ..env.simnet import Net, SimReactor
from ..core.explore import NPROC

patches.install()

from twisted.internet.task import Cooperator  # noqa: E402
from wormhole import _interfaces, transit, ipaddrs  # noqa: E402
from wormhole.eventual import EventualQueue  # noqa: E402
from wormhole._hints import (DirectTCPV1Hint, TorTCPV1Hint, RelayV1Hint, encode_hint, parse_hint)  # noqa: E402
from wormhole._dilation import manager as dmanager  # noqa: E402

LEVEL = "exploration"

ABSENT = "<absent>"
GOOD = {"type": "direct-tcp-v1", "hostname": "10.9.9.9", "port": 9, "priority": 0.0}
D = {"type": "direct-tcp-v1", "hostname": "10.0.0.1", "port": 1234, "priority": 0.0}
T = {"type": "tor-tcp-v1", "hostname": "abcdefgh.onion", "port": 80, "priority": 1.0}
SUB = {"type": "direct-tcp-v1", "hostname": "10.0.0.9", "port": 4001, "priority": 2.0}
R = {"type": "relay-v1", "hints": [SUB]}
NESTED = {"type": "direct-tcp-v1", "hostname": "10.0.0.7", "port": 7, "priority": 0.0}
VALS = [ABSENT, None, True, 0, -1, 65536, 1.5, "s", "", [], [1], {}, {"a": 1}, NESTED, [NESTED], "direct-tcp-v1",
        "relay-v1", "tor-tcp-v1", "unknown-v9"]
KEYS = ["type", "hostname", "port", "priority", "hints"]
PRIOS = [0.0, 1, -2.5, "s", None, [], {}, True]


def mutate(base, key, val):
    h = json.loads(json.dumps(base))
    if val == ABSENT:
        h.pop(key, None)
    else:
        h[key] = val
    return h


def hint_lists(tier):
    """the enumerated space of hint lists (each a list of JSON objects)"""
    seen = set()
    out = []

    def add(lst, kind):
        k = json.dumps(lst, sort_keys=True)
        if k not in seen:
            seen.add(k)
            out.append((kind, lst))
    bases = [("direct", D), ("tor", T), ("relay", R)]
    for bn, b in bases:
        add([b], "valid-" + bn)
        for k in KEYS:
            for v in VALS:
                add([mutate(b, k, v)], "single-" + bn)
    # sub-hint mutations inside a relay entry, and non-object sub-hints
    for k in KEYS:
        for v in VALS:
            add([{"type": "relay-v1", "hints": [mutate(SUB, k, v)]}], "relay-sub-single")
            add([{"type": "relay-v1", "hints": [SUB, mutate(SUB, k, v)]}], "relay-sub-pair")
    for junk in (1, "s", None, [], [1], True, 1.5):
        add([{"type": "relay-v1", "hints": [junk]}], "relay-sub-junk")
        add([{"type": "relay-v1", "hints": [SUB, junk]}], "relay-sub-junk")
        add([{"type": "relay-v1", "hints": junk}], "relay-hints-junk")
    # pairwise field mutations of a direct hint and of a relay entry
    vals2 = VALS if tier != "quick" else [ABSENT, None, True, -1, 1.5, "s", [], {}, NESTED]
    for bn, b in (("direct", D), ("relay", R)):
        for k1, k2 in itertools.combinations(KEYS, 2):
            for v1 in vals2:
                for v2 in vals2:
                    add([mutate(mutate(b, k1, v1), k2, v2)], "pair-" + bn)
    # two entries: priorities of every type pair (sorting / set insertion), same and different targets
    for p1 in PRIOS:
        for p2 in PRIOS:
            add([dict(D, priority=p1), dict(D, priority=p2)], "prio-direct-same-target")
            add([dict(D, priority=p1), dict(D, priority=p2, port=1235)], "prio-direct")
            add([{"type": "relay-v1", "hints": [dict(SUB, priority=p1), dict(SUB, priority=p2)]}], "prio-relay-same-target")
            add([{"type": "relay-v1", "hints": [dict(SUB, priority=p1), dict(SUB, priority=p2, hostname="10.0.0.8")]}], "prio-relay")
            add([{"type": "relay-v1", "hints": [dict(SUB, priority=p1)]},
                 {"type": "relay-v1", "hints": [dict(SUB, priority=p2, port=4002)]}], "prio-two-relays")
    for hn in ("", "a b", "é", "x" * 70, "host.example", "::1", "fe80::1%eth0", "1.2.3.4"):
        add([dict(D, hostname=hn)], "hostname")
        add([{"type": "relay-v1", "hints": [dict(SUB, hostname=hn)]}], "hostname")
    add([], "empty")
    add([{}], "empty-object")
    return out


def valid_targets(hints):
    """reference model: what may be dialled (no Tor configured)"""
    ok = set()

    def tcp(h):
        if isinstance(h, dict) and h.get("type") == "direct-tcp-v1" and isinstance(h.get("hostname"), str) \
                and isinstance(h.get("port"), int):
            ok.add((h["hostname"], int(h["port"])))
    for h in hints:
        if not isinstance(h, dict):
            continue
        if h.get("type") == "relay-v1":
            sub = h.get("hints")
            if isinstance(sub, list):
                for s in sub:
                    tcp(s)
        else:
            tcp(h)
    return ok


def bool_port(hints):
    """ports given as JSON booleans are don't-care (Python bool is an int)"""
    def has(h):
        return isinstance(h, dict) and isinstance(h.get("port"), bool)
    for h in hints:
        if has(h):
            return True
        if isinstance(h, dict) and isinstance(h.get("hints"), list) and any(has(s) for s in h["hints"]):
            return True
    return False


# ------------------------------------------------------------ consumer 1: transit
def run_transit(hints, sender=True, good_first=False):
    net = Net()
    r = SimReactor(net, "10.0.0.2")
    CTX.world = None
    CTX.client = "t"
    klass = transit.TransitSender if sender else transit.TransitReceiver
    t = klass(None, no_listen=True, reactor=r)
    t.get_connection_hints()
    t.set_transit_key(b"k" * 32)
    res = []
    problems = []
    full = hints if good_first == "alone" else (([GOOD] + hints) if good_first else (hints + [GOOD]))
    try:
        t.add_connection_hints(full)
    except Exception as e:
        problems.append(("raises", "add_connection_hints:%s" % type(e).__name__, repr(e)[:120]))
        return problems, set()
    try:
        d = t.connect()
        d.addBoth(res.append)
        r.advance(0)
        for _ in range(12):
            r.advance(transit.Common.RELAY_DELAY)
    except Exception as e:
        problems.append(("raises", "connect:%s" % type(e).__name__, repr(e)[:120]))
        return problems, set()
    if res:
        problems.append(("aborted", "connect:%s" % type(getattr(res[0], "value", res[0])).__name__,
                         "connect() finished early with %r" % (res[0],)))
    dialled = set((h, p) for (_, h, p) in net.dialled)
    return problems, dialled


# ------------------------------------------------------------ consumer 2: dilation manager
@implementer(_interfaces.ISend)
class FakeSend:
    def __init__(self):
        self.sent = []

    def send(self, phase, plaintext):
        self.sent.append((phase, plaintext))


def make_manager(r, side="ff" * 8, no_listen=True, relay=None):
    eq = EventualQueue(r)
    coop = Cooperator(scheduler=eq.eventually)
    s = FakeSend()
    m = dmanager.Manager(s, side, relay, r, eq, coop, ["ged"], 30.0, None, no_listen, None)
    m.got_dilation_key(b"d" * 32)
    m.got_wormhole_versions({"can-dilate": ["ged"]})
    m.received_dilation_message(json.dumps({"type": "please", "side": "00" * 8, "use-version": "ged"}).encode())
    return m, s


def run_dilation(hints, good_first=False):
    net = Net()
    r = SimReactor(net, "10.0.0.2")
    CTX.world = None
    CTX.client = "d"
    before = len(patches._logged)
    m, s = make_manager(r)
    problems = []
    full = hints if good_first == "alone" else (([GOOD] + hints) if good_first else (hints + [GOOD]))
    msg = json.dumps({"type": "connection-hints", "hints": full}).encode()
    try:
        m.received_dilation_message(msg)
        r.advance(0)
        for _ in range(4):
            r.advance(2.0)
    except Exception as e:
        problems.append(("raises", "received_dilation_message:%s" % type(e).__name__, repr(e)[:120]))
    # errors that are merely logged (log.err inside a Deferred chain) neither raise nor abort
    # anything: the property does not forbid them, so they are not an oracle here
    del patches._logged[before:]
    dialled = set((h, p) for (_, h, p) in net.dialled)
    return problems, dialled


def judge(kind, hints, consumer, problems, dialled):
    out = []
    case = dict(kind=kind, hints=hints, consumer=consumer)
    for (what, sig, msg) in problems:
        if what == "aborted" and consumer.endswith("/alone"):
            continue   # no other path exists in this configuration: connect() ends when its only attempts have failed, whatever the reason
        out.append(dict(oracle="hint-%s" % what, sig="%s:%s" % (consumer.split("/")[0], sig),
                        msg="%s handling %s: %s" % (consumer, json.dumps(hints)[:200], msg), case=case))
    if out:
        return out
    ok = valid_targets(hints) | {("10.9.9.9", 9)}
    extra = dialled - ok
    if extra and not bool_port(hints):
        out.append(dict(oracle="dialled-invalid", sig=consumer.split("/")[0],
                        msg="%s dialled %r which no valid hint names (hints %s)" % (consumer, sorted(extra), json.dumps(hints)[:200]),
                        case=case))
    if ("10.9.9.9", 9) not in dialled and not consumer.endswith("/alone"):
        out.append(dict(oracle="good-hint-lost", sig=consumer.split("/")[0],
                        msg="%s: the valid hint next to %s was not dialled" % (consumer, json.dumps(hints)[:200]), case=case))
    return out


def _work(chunk):
    res = []
    for kind, hints in chunk:
        for consumer, fn in (("transit-sender/last", lambda h: run_transit(h, True, False)),
                             ("transit-receiver/first", lambda h: run_transit(h, False, True)),
                             ("dilation/last", lambda h: run_dilation(h, False)),
                             ("dilation/first", lambda h: run_dilation(h, True)),
                             ("transit-sender/alone", lambda h: run_transit(h, True, "alone")),
                             ("dilation/alone", lambda h: run_dilation(h, "alone"))):
            problems, dialled = fn(json.loads(json.dumps(hints)))
            vs = judge(kind, hints, consumer, problems, dialled)
            res.append((kind, consumer, len(dialled), vs))
    return res


def enumerate_hints(chk):
    lists = hint_lists(chk.tier)
    chunks = [lists[i:i + 50] for i in range(0, len(lists), 50)]
    ctx = mp.get_context("fork")
    viol = []
    n = 0
    kinds = {}
    with ctx.Pool(NPROC) as pool:
        for res in pool.imap_unordered(_work, chunks):
            for kind, consumer, nd, vs in res:
                n += 1
                kinds[(kind, consumer.split("/")[0])] = kinds.get((kind, consumer.split("/")[0]), 0) + 1
                viol.extend(vs)
    nontriv = set(json.dumps(l, sort_keys=True) for k, l in lists if k != "empty")
    chk.add_enum("hint-lists", n, nontriv,
                 "every hint list from the grammar (valid direct/tor/relay hints; every single-field and pairwise mutation over %d "
                 "values incl. wrong types, missing fields, nested hints; relay sub-hint mutations and non-object sub-hints; all "
                 "priority type pairs on equal/different targets; odd hostnames) fed, before / after one valid hint and on its own, to "
                 "TransitSender/TransitReceiver.add_connection_hints+connect() and to a CONNECTING dilation Manager via "
                 "received_dilation_message; distinct_nontrivial = distinct non-empty hint lists" % len(VALS),
                 [l for k, l in lists[5:400:97]], viol, extra=dict(hint_lists=len(lists), kinds=len(kinds)))


# ------------------------------------------------------------ round trips
def round_trips(chk):
    viol = []
    n = 0
    keys = set()
    samples = []
    hosts = ["10.0.0.1", "host.example", "::1", "fe80::1", "192.168.1.77"]
    ports = [1, 4001, 65535]
    prios = [0.0, 1.5, -1.0, 3]
    objs = []
    for h in hosts:
        for p in ports:
            for pr in prios:
                objs.append(DirectTCPV1Hint(h, p, pr))
                objs.append(TorTCPV1Hint(h, p, pr))
    for a, b in itertools.product(objs[:6], repeat=2):
        if isinstance(a, DirectTCPV1Hint) and isinstance(b, DirectTCPV1Hint):
            objs.append(RelayV1Hint([a, b]))
    objs.append(RelayV1Hint([]))
    objs.append(RelayV1Hint([DirectTCPV1Hint("relay.example", 4001, 0.0)]))
    for o in objs:
        n += 1
        wire = json.loads(json.dumps(encode_hint(o)))
        back = parse_hint(wire)

        def norm(x):
            if isinstance(x, RelayV1Hint):
                return ("relay", tuple(norm(s) for s in x.hints))
            return (type(x).__name__, x.hostname, x.port, x.priority)
        keys.add(repr(norm(o)))
        if norm(back) != norm(o):
            viol.append(dict(oracle="round-trip", sig="encode-parse", msg="%r -> %r -> %r" % (o, wire, back), case=repr(o)))
        if len(samples) < 3:
            samples.append(wire)
    chk.add_enum("encode-parse-round-trip", n, keys,
                 "encode_hint -> JSON -> parse_hint over direct/tor/relay hint objects (5 hosts x 3 ports x 4 priorities, relays with 0-2 sub-hints)",
                 samples, viol)
    # what a Transit produces is dialled, exactly, by the peer
    viol = []
    n = 0
    keys = set()
    samples = []
    saved = (transit.allocate_tcp_port, ipaddrs.find_addresses)
    try:
        for addrs in (["10.0.0.2"], ["127.0.0.1"], ["10.0.0.2", "192.168.5.5", "127.0.0.1"], ["fd00::2", "10.0.0.2"]):
            for relay in (None, "tcp:relay.example:4001", "tcp:10.3.3.3:4001:priority=2.5"):
                for no_listen in (False, True):
                    n += 1
                    transit.allocate_tcp_port = lambda: 46001
                    ipaddrs.find_addresses = lambda a=addrs: list(a)
                    net = Net()
                    ra = SimReactor(net, "10.0.0.2")
                    rb = SimReactor(net, "10.0.0.3")
                    CTX.world = None
                    CTX.client = "rt"
                    a = transit.TransitReceiver(relay, no_listen=no_listen, reactor=ra)
                    got = []
                    a.get_connection_hints().addCallback(got.append)
                    hints = json.loads(json.dumps(got[0]))
                    b = transit.TransitSender(None, no_listen=True, reactor=rb)
                    b.get_connection_hints()
                    b.set_transit_key(b"k" * 32)
                    b.add_connection_hints(hints)
                    res = []
                    if hints:
                        b.connect().addBoth(res.append)
                        rb.advance(0)
                        for _ in range(4):
                            rb.advance(2.0)
                    expect = set()
                    if not no_listen:
                        na = [x for x in addrs if x != "127.0.0.1"] or addrs
                        expect |= set((x, 46001) for x in na)
                    if relay:
                        parts = relay.split(":")
                        expect.add((parts[1], int(parts[2])))
                    dialled = set((h, p) for (_, h, p) in net.dialled)
                    keys.add(repr(sorted(expect)))
                    if len(samples) < 3:
                        samples.append(hints)
                    if dialled != expect:
                        viol.append(dict(oracle="round-trip", sig="transit-hints",
                                         msg="transit produced %r; peer dialled %r; expected %r" % (hints, sorted(dialled), sorted(expect)),
                                         case=dict(addrs=addrs, relay=relay, no_listen=no_listen)))
    finally:
        transit.allocate_tcp_port, ipaddrs.find_addresses = saved
    chk.add_enum("transit-hints-round-trip", n, keys,
                 "get_connection_hints() of a Transit (address sets x relay x no_listen) -> JSON -> peer add_connection_hints()+connect(): "
                 "the set dialled equals the listener addresses plus the relay", samples, viol)


def run(chk):
    chk.assumptions += [
        "no Tor manager is configured (tor-tcp-v1 hints are then unsupported and must not be dialled)",
        "a JSON boolean in `port` is treated as don't-care (Python's bool is an int; the property says 'integer')",
        "connection attempts are observed as connectTCP calls on the simulated reactor; name resolution is a synchronous stub",
        "an exception out of Manager.received_dilation_message propagates through Boss to RendezvousConnector.ws_message, which calls Boss.error: that is how a bad hint aborts the wormhole",
    ]
    enumerate_hints(chk)
    round_trips(chk)


def replay(body):
    c = body.get("case")
    if isinstance(c, dict) and "hints" in c:
        fn = {"transit-sender/last": lambda h: run_transit(h, True, False),
              "transit-receiver/first": lambda h: run_transit(h, False, True),
              "dilation/last": lambda h: run_dilation(h, False),
              "dilation/first": lambda h: run_dilation(h, True),
              "transit-sender/alone": lambda h: run_transit(h, True, "alone"),
              "dilation/alone": lambda h: run_dilation(h, "alone")}[c["consumer"]]
        problems, dialled = fn(c["hints"])
        vs = judge(c["kind"], c["hints"], c["consumer"], problems, dialled)
        print("dialled:", sorted(dialled))
        for v in vs:
            print("VIOLATION-REPLAYED", v["oracle"], v["sig"], v["msg"])
        return 1 if vs else 0
    print("no replayable case in", body)
    return 2
