"""C11 - dilation peers agree on roles, use one connection at a time, re-converge."""
import os

from ..core import canon
from ..core.explore import Scenario, explore, run_linear
from ..env.dilation import DilationWorld, LEADER, FOLLOWER, dconnection

LEVEL = "model_checking"


def seed():
    return int(os.environ.get("VERIF_SEED", "0") or 0)


def pstate(p):
    return canon.machine_state(p, dconnection.DilatedConnectionProtocol.m)


def in_use(w, link):
    return any(s.manager._connection is not None and s.manager._connection.transport.link is link for s in w.sides)


def losable(w, link):
    """faults allowed by the property: the connection in use may be lost (either end notices first); a candidate may be
    lost only while another candidate created after the last loss of a used connection is still healthy"""
    if link.broken:
        return False
    if in_use(w, link) or any(pstate(p) == "selected" and not l.ends[sd].transport.closed for i in (0, 1) for (l, sd, p) in w.protos(i) if l is link):
        return True
    last = w.__dict__.get("_last_used_lost", -1)
    for other in w.net.links:
        if other is not link and other.idx > last and not other.broken and not any(e.transport.closed or e.transport.disconnecting for e in other.ends):
            return True
    return False


def mon(w):
    # exceptions raised inside dataReceived of abandoned candidates (e.g. a KCM reaching a stopped Connector) are not part
    # of this property: Twisted logs them and drops that connection; they show up in the outcome vector only
    roles = [s.manager._my_role for s in w.sides]
    if roles[0] is not None and roles[1] is not None:
        if not (roles[0] is LEADER and roles[1] is FOLLOWER):
            w.flag("roles", "disagree", "side order says side 0 leads, roles are %r / %r" % (roles[0], roles[1]))
    for i in (0, 1):
        if roles[i] is not None and roles[i] is not (LEADER if i == 0 else FOLLOWER):
            w.flag("roles", "wrong-role-%d" % i, "side %d chose %r" % (i, roles[i]))
    for i in (0, 1):
        sel = [(l, sd, p) for (l, sd, p) in w.protos(i) if pstate(p) == "selected" and not l.ends[sd].transport.closed]
        if len(sel) > 1:
            w.flag("one-connection", "side%d" % i, "side %d has %d open selected connections (links %r)" % (i, len(sel), [l.idx for l, _, _ in sel]))
        c = w.sides[i].manager._connection
        if c is not None and sel and c is not sel[0][2] and not c.transport.closed:
            w.flag("one-connection", "manager-vs-selected-%d" % i, "side %d: Manager._connection is not the selected protocol" % i)
    # a follower only uses a connection the leader has selected
    for (l, sd, p) in w.protos(1):
        if pstate(p) == "selected":
            other = l.ends[1 - sd].protocol
            other = getattr(other, "_wrappedProtocol", other)
            if not isinstance(other, dconnection.DilatedConnectionProtocol) or pstate(other) != "selected":
                w.flag("leader-confirms", "follower-selected-unconfirmed",
                       "the follower selected link %d but the leader's end is in state %r" % (l.idx, pstate(other) if hasattr(other, "_manager") else type(other).__name__))
    # the connection the leader selected is the generation's shared connection: unless the network broke it, the follower must
    # be able to take everything the leader sends on it (a record ahead of the leader's KCM raises in the follower and drops it)
    for (lidx, sd, broken, tname, msg, _in_use) in w.__dict__.get("rx_raised", []):
        l = w.net.links[lidx]
        far = l.ends[1 - sd].protocol
        far = getattr(far, "_wrappedProtocol", far)
        if (not broken and l.ends[sd].owner == w.sides[1].reactor.name and isinstance(far, dconnection.DilatedConnectionProtocol) and pstate(far) == "selected"
                and w.sides[0].manager._connection is far):
            w.flag("leader-confirms", "follower-dropped-leaders-selection:%s" % tname,
                   "the leader selected link %d and is using it, no fault was injected on it, but the follower's end raised %s(%s) on the "
                   "bytes the leader sent and dropped the connection" % (lidx, tname, msg))
    # remember which used link was lost last (for the fault predicate)
    for l in w.net.links:
        if l.broken and any(pstate(p) == "selected" for i in (0, 1) for (ll, sd, p) in w.protos(i) if ll is l):
            w._last_used_lost = max(w.__dict__.get("_last_used_lost", -1), l.idx)


def fin(w):
    out = []
    st = (w.mstate(0), w.mstate(1))
    if st != ("CONNECTED", "CONNECTED"):
        out.append(dict(oracle="converge", sig="deadlock:%s/%s" % st,
                        msg="quiescent (nothing left to deliver, no timers explored) but the managers are %s / %s; links %r" % (
                            st[0], st[1], [(l.idx, l.broken, [e.transport.closed for e in l.ends]) for l in w.net.links])))
        return out
    c0, c1 = w.sides[0].manager._connection, w.sides[1].manager._connection
    if c0 is None or c1 is None or c0.transport.link is not c1.transport.link:
        out.append(dict(oracle="converge", sig="different-links", msg="both CONNECTED but not on the two ends of one link"))
    elif any(e.transport.closed for e in c0.transport.link.ends):
        out.append(dict(oracle="converge", sig="dead-link", msg="both CONNECTED on a link that is closed"))
    return out


def mk(name, **kw):
    scn_kw = {k: kw.pop(k) for k in ("max_depth", "max_states", "dev_bound") if k in kw}
    cfg = dict(explored=("mbox", "start", "conn_ok", "deliver", "turn", "close", "lose"), chunking="whole", no_timer=True,
               start_explored=True, monitors=[mon], final_monitors=[fin], losable=losable, threads={},
               extra_state=lambda w: w.__dict__.get("_last_used_lost", -1))
    cfg.update(kw)
    s = seed()

    def factory():
        return DilationWorld(cfg, s)
    return Scenario(name, factory, **scn_kw)


def scenarios(tier):
    q = tier == "quick"
    S = []
    # initial convergence, every interleaving, no faults
    S.append(mk("initial-one-listener-bfs", no_listen={1: True}, max_depth=80, max_states=600000))
    S.append(mk("initial-other-listener-bfs", no_listen={0: True}, max_depth=80, max_states=600000))
    S.append(mk("initial-two-candidates-bfs", max_depth=120, max_states=600000 if q else 4000000))
    # the Connector's sets (pending connectors / connections, contenders) iterated in reverse insertion order
    S.append(mk("initial-two-candidates-revsets-bfs", set_order="rev", max_depth=120, max_states=600000 if q else 4000000))
    S.append(mk("reconverge-lose2-two-candidates-revsets-dev", set_order="rev", lose=2, dev_bound=3 if q else 4, max_depth=240))
    # loss of the connection in use, noticed by either side first, re-convergence
    S.append(mk("reconverge-lose1-one-listener-bfs", no_listen={1: True}, lose=1, max_depth=160, max_states=600000 if q else 4000000))
    S.append(mk("reconverge-lose2-one-listener-dev", no_listen={1: True}, lose=2, dev_bound=4 if q else 5, max_depth=200))
    S.append(mk("reconverge-lose2-two-candidates-dev", lose=2, dev_bound=3 if q else 4, max_depth=240))
    S.append(mk("reconverge-lose1-frames-dev", no_listen={0: True}, lose=1, chunking="frames", dev_bound=4 if q else 5, max_depth=200))
    # handshake progress byte by byte: segment boundaries one byte into and one byte before the end of each wire unit (prologue,
    # Noise handshake, KCM, records), initially and after a loss
    S.append(mk("initial-one-listener-edges-dev", no_listen={1: True}, chunking="frames+edges", dev_bound=3 if q else 4, max_depth=200))
    S.append(mk("initial-other-listener-edges-dev", no_listen={0: True}, chunking="frames+edges", dev_bound=3 if q else 4, max_depth=200))
    S.append(mk("reconverge-lose1-edges-dev", no_listen={1: True}, lose=1, chunking="frames+edges", dev_bound=3 if q else 4, max_depth=260))
    # the leader holds un-acked records (sent, or written while down) when the next generation's connection is selected: they are
    # replayed on the new connection, and the follower must already have been told (KCM) that the connection is the chosen one
    TU = {0: [[("open", "p"), ("write", 0, b"u1"), ("write", 0, b"u2")]], 1: [[("listen", "p")]]}
    S.append(mk("reconverge-with-unacked-records-dev", threads=TU, no_listen={1: True}, lose=1, start_explored=False,
                explored=("deliver", "app", "lose", "conn_ok", "turn", "close"), dev_bound=3 if q else 4, max_depth=200))
    S.append(mk("reconverge-with-unacked-records-both-ways-dev", threads={0: TU[0], 1: [[("listen", "p")], [("open", "q"), ("write", 0, b"v1")]]},
                no_listen={0: True}, lose=1, start_explored=False,
                explored=("deliver", "app", "lose", "conn_ok", "turn", "close"), dev_bound=2 if q else 3, max_depth=200))
    if not q:
        S.append(mk("reconverge-lose1-two-candidates-bfs", lose=1, max_depth=200, max_states=4000000))
        S.append(mk("reconverge-lose3-dev", lose=3, dev_bound=4, max_depth=300))
    return S


# ---------------------------------------------------------------- the Boss reorder buffer in front of the Dilator (stacked W1+W3)
def stacked_scenarios(tier):
    from zope.interface import implementer
    from wormhole import _interfaces
    from .w1common import CODE, mk as mk1

    @implementer(_interfaces.ISend)
    class SendTap:
        def __init__(self, inner, log):
            self.inner, self.log = inner, log

        def send(self, phase, plaintext):
            if phase.startswith("dilate-"):
                self.log.append(bytes(plaintext))
            return self.inner.send(phase, plaintext)

    def post(w):
        w.dil_sent = [[], []]
        w.dil_rx = [[], []]
        for c in w.clients:
            d = c.boss._D
            d._S = SendTap(d._S, w.dil_sent[c.ci])
            orig = d.received_dilate

            def rx(plaintext, orig=orig, ci=c.ci):
                w.dil_rx[ci].append(bytes(plaintext))
                return orig(plaintext)
            d.received_dilate = rx

    def mon_order(w):
        for ci in (0, 1):
            got, sent = w.dil_rx[ci], w.dil_sent[1 - ci]
            if got != sent[:len(got)]:
                w.flag("dilate-order", "c%d" % ci, "client %d's Dilator received dilate messages %r, the peer sent %r" % (
                    ci, [g[:40] for g in got], [x[:40] for x in sent]))
        for rec in w.escaped:
            if not rec[0].startswith("net."):
                w.flag("no-exception", "%s@%s" % (rec[2], rec[4]), "%s escaped %s: %s" % (rec[2], rec[0], rec[3]))

    def fin_order(w):
        out = []
        for ci in (0, 1):
            if w.dil_rx[ci] != w.dil_sent[1 - ci]:
                out.append(dict(oracle="dilate-order", sig="c%d:incomplete" % ci,
                                msg="quiescent: client %d's Dilator received %d of the %d dilate messages the peer sent" % (
                                    ci, len(w.dil_rx[ci]), len(w.dil_sent[1 - ci]))))
        return out
    q = tier == "quick"
    cl = [dict(threads=[[("set_code", CODE), ("dilate",)]], dilation=True, mode="deferred", drops=1 if not q else 0),
          dict(threads=[[("set_code", CODE), ("dilate",)]], dilation=True, mode="deferred", drops=0)]
    cfgd = dict(clients=cl, net=True, explored=("down", "up", "api", "connect", "reorder", "dup", "drop"), coarse=[1], reorder=2, dup=0 if q else 1,
                monitors=[mon_order], final_monitors=[fin_order], post_init=post, extra_state=lambda w: (w.dil_sent, w.dil_rx))
    return [mk1("boss-reorder-buffer-dilate-N", cfgd, max_depth=200, max_states=150000 if q else 3000000)]


def boss_dilate_phases(chk):
    """the k-th control message of a long session (many generations): every phase dilate-N, N up to 130, arriving in order or
    permuted inside a window of 3, reaches the Dilator exactly once and in order"""
    import itertools
    from .w1common import CODE
    from ..env.mailbox import MailboxWorld
    from ..env.patches import CTX
    viol = []
    keys = set()
    n = 0
    cl = [dict(threads=[[("set_code", CODE), ("dilate",)]], dilation=True, mode="deferred"),
          dict(threads=[[("set_code", CODE), ("dilate",)]], dilation=True, mode="deferred")]
    TOP = 130
    for perm in itertools.permutations(range(3)):
        n += 1
        w = MailboxWorld(dict(clients=cl, net=True, explored=("down", "up", "api", "connect")), seed())
        for _ in range(500):
            en = w.enabled()
            if not en:
                break
            w.apply(en[0])
        b = w.clients[0].boss
        got = []
        b._D.received_dilate = lambda plaintext: got.append(bytes(plaintext))
        first = b._next_rx_dilate_seqnum
        order = []
        for base in range(first, TOP, 3):
            order.extend(base + k for k in perm if base + k < TOP)
        CTX.world = w
        CTX.client = "c0"
        for x in order:
            try:
                b.got_message("dilate-%d" % x, b"m%d" % x)
            except Exception as e:
                viol.append(dict(oracle="dilate-order", sig="raises:%s" % type(e).__name__, msg="Boss.got_message('dilate-%d') raised %r" % (x, e)))
                break
        exp = [b"m%d" % x for x in range(first, TOP)]
        keys.add((perm, got == exp))
        if got != exp:
            missing = [x for x in range(first, TOP) if b"m%d" % x not in got]
            viol.append(dict(oracle="dilate-order", sig="long-session:%s" % ("lost" if missing else "order"),
                             msg="dilate-%d..dilate-%d delivered to the Boss (window order %r): the Dilator received %d of %d, first missing: %r" % (
                                 first, TOP - 1, perm, len(got), len(exp), missing[:3]), case=dict(perm=list(perm))))
    chk.add_enum("boss-dilate-phase-numbers", n, keys, "after a real key exchange, phases dilate-N for every N up to 129 are handed to the real Boss in "
                 "order and in all 6 orders inside windows of 3 (crossing the 9/10 and 99/100 digit boundaries): the Dilator must receive each "
                 "exactly once, in order", [[0, 1, 2], [2, 1, 0]], viol)


def run(chk):
    if not getattr(chk, "only", None) or chk.only == "boss-dilate-phase-numbers":
        boss_dilate_phases(chk)
    chk.assumptions += [
        "in the W3 scenarios the mailbox is two FIFO queues (one per sender) of dilate-N plaintexts; the Boss reorder buffer in front of the "
        "Dilator is exercised by the stacked scenario boss-reorder-buffer-dilate-N (real mailbox server, reordered and duplicated message events)",
        "faults: the connection in use may be lost (each end notices separately); a candidate may be lost only while a younger healthy candidate exists; "
        "connection attempts are not refused (the property presupposes that one attempt of the new generation completes)",
        "timers (ping monitor, relay delay) are not explored here: C16 covers the monitor",
    ]
    for sc in scenarios(chk.tier) + stacked_scenarios(chk.tier):
        if getattr(chk, "only", None) and chk.only not in sc.name:
            continue
        res = explore(sc, log=chk.log if os.environ.get("VERIF_VERBOSE") else None)
        chk.add_result(res)


def replay(body):
    if body.get("scenario") == "boss-dilate-phase-numbers":
        class _C:
            def add_enum(self, name, n, keys, rule, samples, violations=(), extra=None):
                self.v = list(violations)
        c = _C()
        boss_dilate_phases(c)
        for x in c.v:
            print("VIOLATION-REPLAYED oracle=%s sig=%s: %s" % (x["oracle"], x["sig"], x["msg"]))
        return 1 if c.v else 0
    for sc in stacked_scenarios(body.get("tier", "quick")):
        if sc.name == body["scenario"]:
            from .w1common import replay as _r
            return _r(body, [sc])
    for sc in scenarios(body.get("tier", "quick")):
        if sc.name == body["scenario"]:
            w, v = run_linear(sc.factory, [tuple(e) for e in body["events"]])
            print("managers:", w.mstate(0), w.mstate(1), "errors", w.errors)
            for l in w.net.links:
                print(" link", l.idx, "broken" if l.broken else "", [(e.owner, e.transport.closed) for e in l.ends])
            for x in v:
                print("VIOLATION-REPLAYED oracle=%s sig=%s: %s" % (x["oracle"], x["sig"], x["msg"]))
            return 1 if v else 0
    return 2
