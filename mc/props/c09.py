"""C09 - the mailbox session survives connection loss: nothing lost, nothing repeated."""
import json

from .w1common import CODE, mk, msgs, run_scenarios, replay as _replay, W1_ASSUMPTIONS

LEVEL = "model_checking"
ONCE = ("code", "key", "verifier", "versions")


def mon_norepeat(w):
    for c in w.clients:
        obs = c.app.obs
        for kind in ONCE + ("closed",):
            n = sum(1 for k, _ in obs if k == kind)
            if n > 1:
                w.flag("repeated", "c%d:%s" % (c.ci, kind), "client %d saw %s %d times: %r" % (c.ci, kind, n, obs))
        peer = w.clients[1 - c.ci]
        got = msgs(c.app)
        if got != peer.app.sent[:len(got)]:
            w.flag("messages", "c%d" % c.ci, "client %d received %r, peer sent %r" % (c.ci, got, peer.app.sent))
        closing = c.ghost["cause"] is not None and c.ghost["cause"][0] == "close"
        if any(k == "closed" or k.startswith("err:") for k, _ in obs) and not closing:
            w.flag("session-died", "c%d" % c.ci, "client %d session ended without close(): %r errors=%r" % (c.ci, obs, w.errors))
    # per connection, the first command the server processes must be bind (ghost kept by server_hook)


def fin_complete(w):
    out = []
    for c in w.clients:
        peer = w.clients[1 - c.ci]
        obs = c.app.obs
        for kind in ONCE:
            n = sum(1 for k, _ in obs if k == kind)
            if n != 1:
                out.append(dict(oracle="eventually-complete", sig="c%d:%s" % (c.ci, kind),
                                msg="both sides connected and quiescent but client %d saw %s %d times: %r" % (c.ci, kind, n, obs)))
        if msgs(c.app) != peer.app.sent:
            out.append(dict(oracle="eventually-complete", sig="c%d:msgs" % c.ci,
                            msg="quiescent: client %d has %r, peer sent %r" % (c.ci, msgs(c.app), peer.app.sent)))
    keys = [[v for k, v in c.app.obs if k == "key"] for c in w.clients]
    if keys[0] and keys[1] and keys[0] != keys[1]:
        out.append(dict(oracle="eventually-complete", sig="keys-differ", msg="keys differ"))
    return out


def fin_closing(w):
    """scenarios in which client 0 also calls close(): the reconnects must not lose its closed notification either"""
    out = []
    c = w.clients[0]
    n = sum(1 for k, _ in c.app.obs if k == "closed")
    if c.ghost["cause"] is not None and c.ghost["cause"][0] == "close" and n != 1:
        out.append(dict(oracle="eventually-complete", sig="c0:closed-lost",
                        msg="connected and quiescent: client 0 called close() but saw closed %d times; obs=%r server_errors=%r" % (
                            n, c.app.obs, w.server_errors)))
    return out


def hook_bind_first(w, cn, payload):
    """server-side observation: every connection's first command is bind"""
    t = json.loads(payload.decode("utf-8"))["type"]
    if not getattr(cn, "_seen_cmd", False):
        cn._seen_cmd = True
        if t != "bind":
            w.flag("bind-first", "c%d:%s" % (cn.ci, t), "connection %d/%d started with %s" % (cn.ci, cn.gen, t))
    return False


FLOW0 = {"set": [("set_code", CODE)], "alloc": [("allocate", 2)],
         "input": [("input",), ("refresh",), ("nameplate_peer",), ("words_peer",)]}


def api_hook(w, c, step):
    if step[0] == "words_peer":
        code = w._peer_code(c)
        c.app.helper.choose_words(code.split("-", 1)[1])
        return True
    if step[0] == "nameplate_peer":
        code = w._peer_code(c)
        c.app.helper.choose_nameplate(code.split("-", 1)[0])
        return True
    return False


def guard(w, c, step):
    if step[0] in ("words_peer", "nameplate_peer"):
        return c.app.helper is not None and w._peer_code(c) is not None
    if step[0] in ("nameplate", "words", "refresh"):
        return c.app.helper is not None
    if step[0] == "set_code_peer":
        return w._peer_code(c) is not None
    return True


def cfg(flow0="set", flow1="set", n0=1, n1=1, fine=(0,), drops=(1, 0), mode="delegate", explored=None):
    f1 = {"set": [("set_code", CODE)], "peer": [("set_code_peer",)],
          "input": FLOW0["input"]}[flow1]
    return dict(
        clients=[dict(threads=[FLOW0[flow0] + [("send", b"a%d" % i) for i in range(n0)]], drops=drops[0], mode=mode),
                 dict(threads=[f1 + [("send", b"b%d" % i) for i in range(n1)]], drops=drops[1], mode=mode)],
        explored=explored or ("down", "up", "api", "connect", "drop"),
        coarse=[i for i in (0, 1) if i not in fine],
        monitors=[mon_norepeat], final_monitors=[fin_complete],
        server_hook=hook_bind_first, api_hook=api_hook, step_guard=guard)


def scenarios(tier):
    q = tier == "quick"
    S = []
    S.append(mk("set-set-fine0-drop1", cfg("set", "set", 1, 1, (0,), (1, 0)), max_depth=90, max_states=400000))
    S.append(mk("alloc-peer-fine0-drop1", cfg("alloc", "peer", 1, 0, (0,), (1, 0)), max_depth=90, max_states=400000))
    S.append(mk("alloc-input-fine1-drop1", cfg("alloc", "input", 0, 1, (1,), (0, 1)), max_depth=90, max_states=400000))
    ch = cfg("set", "set", 1, 1, (0,), (1, 0))
    ch["hsfail"] = 1
    ch["explored"] = tuple(ch["explored"]) + ("hsfail",)
    S.append(mk("set-set-fine0-drop1-hsfail-dev3", ch, dev_bound=3 if q else None, max_depth=120, max_states=4000000))
    # the server begins the WebSocket closing handshake (sends raise Disconnected inside the library) before the connection goes away:
    # every API call made in that window (code entry, send, close) must survive the loss like any other in-flight command
    for nm, a, b, fine, drops in (("set-set-fine0", "set", "set", (0,), (1, 0)), ("alloc-input-fine0", "alloc", "input", (0,), (1, 0)),
                                  ("alloc-input-fine1", "alloc", "input", (1,), (0, 1))):
        cw = cfg(a, b, 1, 1, fine, drops)
        cw["wsclosing"] = True
        cw["explored"] = tuple(cw["explored"]) + ("wsclosing",)
        S.append(mk("%s-wsclosing-drop1-dev3" % nm, cw, dev_bound=3 if q else 4, max_depth=160))
    # the application closes while the connection comes and goes: the close handshake is resumed on the next connection
    cc = cfg("set", "set", 1, 1, (0,), (2, 0))
    cc["clients"][0]["threads"].append([("close",)])
    cc["final_monitors"] = [fin_closing]
    S.append(mk("set-set-close0-drops2-dev3", cc, dev_bound=3 if q else 4, max_depth=200))
    S.append(mk("set-set-dev2-drops2", cfg("set", "set", 1, 1, (0, 1), (2, 2), mode="deferred"), dev_bound=2, max_depth=200))
    S.append(mk("alloc-input-dev2-drops2", cfg("alloc", "input", 1, 1, (0, 1), (2, 2)), dev_bound=2, max_depth=200))
    if not q:
        S.append(mk("set-set-fine0-drop2", cfg("set", "set", 1, 1, (0,), (2, 0)), max_depth=120, max_states=4000000))
        S.append(mk("set-set-fine1-drop1-deferred", cfg("set", "set", 1, 1, (1,), (0, 1), mode="deferred"), max_depth=120, max_states=4000000))
        S.append(mk("alloc-input-fine0-drop1", cfg("alloc", "input", 1, 1, (0,), (1, 0)), max_depth=120, max_states=4000000))
        S.append(mk("set-set-dev3-drops3-2msgs", cfg("set", "set", 2, 2, (0, 1), (3, 3)), dev_bound=3, max_depth=300))
        S.append(mk("alloc-input-dev3-drops3", cfg("alloc", "input", 2, 2, (0, 1), (3, 3)), dev_bound=3, max_depth=300))
    return S


def run(chk):
    chk.assumptions += W1_ASSUMPTIONS
    run_scenarios(chk, scenarios(chk.tier))


def replay(body):
    return _replay(body, scenarios(body.get("tier", "quick")))
