"""C01 - the session key is bound to the wormhole code (and appid): agree iff codes match."""
import itertools
import json
import unicodedata

from .w1common import mk, msgs, run_scenarios, replay as _replay, W1_ASSUMPTIONS, seed
from ..env.mailbox import MailboxWorld

LEVEL = "model_checking"

BASE = "4-purple-sausages"
CODES = [
    BASE,
    "4-purple-sausagez",                 # one character
    "4-Purple-sausages",                 # case
    "4-purple-sausages-extra",           # word added
    "4-purple",                          # word removed
    "4-purple-sausages-",                # trailing hyphen
    "4-café-au-lait",               # NFC
    "4-café-au-lait",              # NFD spelling of the same code
    "4-Kelvin-scale",               # KELVIN SIGN: NFC-normalises to 'K'
    "4-Kelvin-scale",
    "4-purple-sаusages",            # Cyrillic a: looks equal, is not
    "4-ﬁsh-purple",                 # LATIN SMALL LIGATURE FI: NFC-distinct from "fish" (only NFKC folds it)
    "4-fish-purple",
    "4-purple-sausages2",
    "4-purple-sausages²",           # SUPERSCRIPT TWO: again only compatibility-equal
    "4-\u212bngstrom-\u2126",             # ANGSTROM SIGN, OHM SIGN: canonical singletons (no combining mark anywhere)
    "4-\u00c5ngstrom-\u03a9",             # their NFC forms: the same code
    "4-\u1112\u1161\u11ab-word",          # Hangul conjoining jamo
    "4-\ud55c-word",                     # the precomposed syllable: the same code
    "5-purple-sausages",                 # other nameplate
    "04-purple-sausages",                # nameplate spelled differently
]
PURPOSES = ["", "a", "b", "ab", "transit-key", "é", "file-key", "ﬁle-key"]
LENGTHS = [1, 16, 32, 64]


def nfc(s):
    return unicodedata.normalize("NFC", s)


def merged_hook(w, cn, payload):
    """merged-namespace server: every appid is routed to one namespace, so that clients with
    different appids do meet in one mailbox (shows the appid is bound into the key)"""
    m = json.loads(payload.decode("utf-8"))
    if m["type"] == "bind":
        m["appid"] = "merged"
        cn.sp.onMessage(json.dumps(m).encode("utf-8"), False)
        return True
    return False


def pair_cfg(ca, cb, appa, appb, merged, flowb="set"):
    tb = [("set_code", cb)] if flowb == "set" else [("input",), ("nameplate", cb.split("-", 1)[0]), ("words", cb.split("-", 1)[1])]
    d = dict(clients=[dict(threads=[[("set_code", ca), ("send", b"from-a")]], mode="delegate", appid=appa, versions={"who": "a"}),
                      dict(threads=[tb + [("send", b"from-b")]], mode="delegate", appid=appb, versions={"who": "b"})],
             explored=("down", "up", "api", "connect"))
    if merged:
        d["server_hook"] = merged_hook
    return d


def judge(w, same, where):
    """returns list of violation dicts for a world in a quiescent state"""
    out = []
    a, b = w.clients

    def obs(c, kind):
        return [v for k, v in c.app.obs if k == kind]
    if same:
        for c in (a, b):
            for kind in ("key", "verifier", "versions"):
                if len(obs(c, kind)) != 1:
                    out.append(dict(oracle="same-code-agree", sig="%s:missing-%s" % (where, kind),
                                    msg="codes match but client %d has %s=%r; obs=%r" % (c.ci, kind, obs(c, kind), c.app.obs)))
        if out:
            return out
        if obs(a, "key") != obs(b, "key") or obs(a, "verifier") != obs(b, "verifier"):
            out.append(dict(oracle="same-code-agree", sig="%s:keys-differ" % where, msg="same code, different key/verifier"))
        if msgs(a.app) != [b"from-b"] or msgs(b.app) != [b"from-a"]:
            out.append(dict(oracle="same-code-agree", sig="%s:msgs" % where, msg="messages %r %r" % (msgs(a.app), msgs(b.app))))
        seen = {}
        for p in PURPOSES:
            for n in LENGTHS:
                ka = a.w.derive_key(p, n)
                kb = b.w.derive_key(p, n)
                if ka != kb or len(ka) != n:
                    out.append(dict(oracle="derive-key", sig="%s:mismatch" % where,
                                    msg="derive_key(%r,%d) differs between the sides or has the wrong length" % (p, n)))
                if n >= 16:
                    if ka in seen.setdefault(n, {}):
                        out.append(dict(oracle="derive-key", sig="%s:collision" % where,
                                        msg="derive_key(%r,%d) == derive_key(%r,%d)" % (p, n, seen[n][ka], n)))
                    seen[n][ka] = p
                    # a longer output must not simply extend a shorter one's other purposes; and the
                    # verifier / data keys are separate derivations
                    if ka == obs(a, "verifier")[0] or ka == obs(a, "key")[0]:
                        out.append(dict(oracle="derive-key", sig="%s:equals-internal" % where,
                                        msg="derive_key(%r,%d) equals the verifier or the raw key" % (p, n)))
    else:
        out.extend(judge_differ(w, where, final=True))
    return out


def judge_differ(w, where, final):
    out = []
    for c in w.clients:
        for k, v in c.app.obs:
            if k in ("verifier", "versions", "msg"):
                out.append(dict(oracle="different-code-silent", sig="%s:%s" % (where, k),
                                msg="codes differ but client %d observed %s: %r" % (c.ci, k, c.app.obs)))
    if final:
        for c in w.clients:
            heard = any(m.get("side") != c.boss._side and m.get("phase") != "pake" for m in c.delivered_msgs())
            closed = [v for k, v in c.app.obs if k == "closed"]
            if heard and closed != ["WrongPasswordError"]:
                out.append(dict(oracle="different-code-scared", sig="%s:c%d" % (where, c.ci),
                                msg="client %d heard from a peer with another code but closed=%r" % (c.ci, closed)))
            if not heard and closed:
                out.append(dict(oracle="different-code-scared", sig="%s:c%d:closed-unheard" % (where, c.ci),
                                msg="client %d closed %r without hearing from the peer" % (c.ci, closed)))
    return out


def run_default(cfg):
    w = MailboxWorld(cfg, seed())
    n = 0
    while True:
        en = w.enabled()
        if not en:
            break
        w.apply(en[0])
        n += 1
    return w, n


def enumerate_pairs(chk):
    viol = []
    nontrivial = set()
    n = 0
    samples = []
    codes = CODES if chk.tier != "quick" else CODES
    for ca, cb in itertools.product(codes, repeat=2):
        for (appa, appb, merged) in (("app1", "app1", False), ("app1", "app2", True), ("app1", "app2", False)):
            if chk.tier == "quick" and not merged and appa != appb and (ca != cb):
                continue   # different namespaces never meet; keep the equal-code rows only in quick
            for flowb in ("set", "input"):
                if flowb == "input" and chk.tier == "quick" and ca != cb and ca != BASE:
                    continue
                same = nfc(ca) == nfc(cb) and appa == appb
                cfg = pair_cfg(ca, cb, appa, appb, merged, flowb)
                w, steps = run_default(cfg)
                n += 1
                where = "pair"
                vs = judge(w, same, where)
                if w.errors or w.escaped:
                    vs.append(dict(oracle="internal", sig="pair:%r" % (w.errors or w.escaped)[0][0],
                                   msg="internal error %r %r" % (w.errors, w.escaped)))
                met = any(m.get("side") != c.boss._side for c in w.clients for m in c.delivered_msgs())
                if met:
                    nontrivial.add((ca, cb, appa == appb, flowb))
                case = dict(code_a=ca, code_b=cb, appid_a=appa, appid_b=appb, merged_namespace=merged, flow_b=flowb,
                            same=same, met_in_mailbox=met,
                            closed=[[v for k, v in c.app.obs if k == "closed"] for c in w.clients])
                if len(samples) < 4 or (not same and met and len(samples) < 8):
                    samples.append(case)
                for v in vs:
                    v["case"] = case
                    viol.append(v)
    chk.add_enum("code-pairs", n, nontrivial,
                 "all ordered pairs over %d code spellings x {same appid, different appid on a merged-namespace server, "
                 "different appid on the real server} x {set_code, input_code} run to quiescence on the default schedule; "
                 "non-trivial = the two clients actually exchanged messages in one mailbox" % len(codes),
                 samples, viol)


def mon_sched(w):
    same = w.cfg["same"]
    if not same:
        for v in judge_differ(w, "sched", final=False):
            w.flag(v["oracle"], v["sig"], v["msg"])


def fin_sched(w):
    return judge(w, w.cfg["same"], "sched")


def third_party_cfg(flow):
    """a participant holding another code talks first: its PAKE and its (undecryptable) version are in the mailbox before the
    local user has finished entering the code"""
    from .c14 import third
    tb = [("set_code", BASE)] if flow == "set" else [("input",), ("nameplate", "4"), ("words", "purple-sausages")]
    return dict(clients=[dict(threads=[tb], mode="delegate", appid="appid", versions={"who": "a"})],
                raw=[third("otherpw")], explored=("down", "up", "api", "connect", "raw"),
                same=False, monitors=[mon_sched], final_monitors=[fin_third])


def fin_third(w):
    out = judge_differ(w, "third", final=True)
    c = w.clients[0]
    heard = any(m.get("side") != c.boss._side and m.get("phase") != "pake" for m in c.delivered_msgs())
    code_known = any(k == "code" for k, _ in c.app.obs)
    return out if (heard and code_known) else [v for v in out if v["oracle"] != "different-code-scared"]


def scenarios(tier):
    S = []
    for flow in ("set", "input"):
        S.append(mk("third-other-code-%s" % flow, third_party_cfg(flow), max_depth=90, max_states=300000))
    reps = [("equal", BASE, BASE), ("nfc-nfd", CODES[6], CODES[7]), ("one-char", BASE, CODES[1])]
    for name, ca, cb in reps:
        for flowb in ("set", "input"):
            cfg = pair_cfg(ca, cb, "app1", "app1", False, flowb)
            cfg["same"] = nfc(ca) == nfc(cb)
            cfg["monitors"] = [mon_sched]
            cfg["final_monitors"] = [fin_sched]
            if tier == "quick":
                cfg["coarse"] = [0]
                S.append(mk("sched-%s-%s-fineB" % (name, flowb), cfg, max_depth=90, max_states=300000))
            else:
                S.append(mk("sched-%s-%s-bothfine" % (name, flowb), cfg, max_depth=120, max_states=3000000))
    # the server hands the peer's messages over in another order (version or an application phase before the PAKE): equal codes must
    # still agree, different codes must still be told apart
    for name, ca, cb in reps[:1] + reps[2:]:
        cfg = pair_cfg(ca, cb, "app1", "app1", False, "set")
        cfg["same"] = nfc(ca) == nfc(cb)
        cfg["monitors"] = [mon_sched]
        cfg["final_monitors"] = [fin_sched]
        cfg["coarse"] = [0]
        cfg["reorder"] = 1 if tier == "quick" else 2
        cfg["explored"] = ("down", "up", "api", "connect", "reorder")
        S.append(mk("sched-%s-reorder" % name, cfg, max_depth=100, max_states=400000 if tier == "quick" else 3000000))
    return S


def run(chk):
    chk.assumptions += W1_ASSUMPTIONS
    chk.assumptions.append("the merged-namespace rows use a server variant that maps every appid to one namespace; "
                           "real SPAKE2 / HKDF / SecretBox are used throughout")
    enumerate_pairs(chk)
    run_scenarios(chk, scenarios(chk.tier))


def replay(body):
    if body.get("case"):
        c = body["case"]
        w, n = run_default(pair_cfg(c["code_a"], c["code_b"], c["appid_a"], c["appid_b"], c["merged_namespace"], c["flow_b"]))
        vs = judge(w, c["same"], "pair")
        for cl in w.clients:
            print("client", cl.ci, cl.app.obs)
        for v in vs:
            print("VIOLATION-REPLAYED", v["oracle"], v["sig"], v["msg"])
        return 1 if vs else 0
    return _replay(body, scenarios(body.get("tier", "quick")))
