"""C03 - mailbox messages arrive in order, exactly once, unmodified."""
from .w1common import CODE, mk, msgs, run_scenarios, replay as _replay, W1_ASSUMPTIONS

LEVEL = "model_checking"


def received(app):
    """what the application received, in the order of its get_message() calls (explicit gets) or of delivery"""
    explicit = [slot[3] for slot in app.extra if isinstance(slot, list) and slot[0] == "get:message" and slot[2] == "ok"]
    return explicit if explicit or not app.auto_get else msgs(app)


def mon_prefix(w):
    for c in w.clients:
        peer = w.clients[1 - c.ci]
        got = received(c.app) if c.app.mode != "delegate" else msgs(c.app)
        sent = peer.app.sent
        if got != sent[:len(got)]:
            w.flag("prefix", "c%d" % c.ci,
                   "client %d received %r which is not a prefix of what its peer sent %r" % (c.ci, got, sent))


def fin_equal(w):
    out = []
    for c in w.clients:
        peer = w.clients[1 - c.ci]
        if any(k == "closed" for k, v in c.app.obs) or any(k == "closed" for k, v in peer.app.obs):
            continue
        got = received(c.app) if c.app.mode != "delegate" else msgs(c.app)
        pending = [slot for slot in c.app.extra if isinstance(slot, list) and slot[0] == "get:message" and slot[2] == "pending"]
        want = peer.app.sent
        if not c.app.auto_get and c.app.mode != "delegate":
            ngets = sum(1 for t in c.threads for op in t if op[0] == "get" and op[1] == "message")
            want = peer.app.sent[:ngets]
        if got != want:
            out.append(dict(oracle="delivered-all", sig="c%d" % c.ci,
                            msg="quiescent, both connected, but client %d has %r of %r" % (c.ci, got, want)))
    return out


def cfg(ma, mb, fine=(0, 1), drops=(0, 0), reorder=0, dup=0, mode="deferred", pre=False, explored=None):
    def thr(ms):
        if pre:   # send before the code is set
            return [[("send", ms[0])] + [("set_code", CODE)] + [("send", m) for m in ms[1:]]] if ms else [[("set_code", CODE)]]
        return [[("set_code", CODE)] + [("send", m) for m in ms]]
    return dict(
        clients=[dict(threads=thr(ma), drops=drops[0], mode=mode),
                 dict(threads=thr(mb), drops=drops[1], mode=mode)],
        explored=explored or ("down", "up", "api", "connect", "drop", "reorder", "dup"),
        coarse=[i for i in (0, 1) if i not in fine],
        reorder=reorder, dup=dup,
        monitors=[mon_prefix], final_monitors=[fin_equal])


A2 = [b"alpha", b"alpha"]      # identical twins
A3 = [b"a0", b"", b"a0"]
B1 = [b"bravo"]
B2 = [b"", b"b1"]


def late_reader_cfg(n_peer, n_gets, fine=(0,), reorder=0):
    """client 0 uses get_message() explicitly and may call it late, so that records pile up unclaimed"""
    peer_msgs = [b"p%d" % i if i != 1 else b"" for i in range(n_peer)]      # the second one is the empty message
    return dict(
        clients=[dict(threads=[[("set_code", CODE)], [("get", "message")] * n_gets], drops=0, mode="deferred", auto_get=False),
                 dict(threads=[[("set_code", CODE)] + [("send", m) for m in peer_msgs]], drops=0, mode="deferred")],
        explored=("down", "up", "api", "connect", "reorder"), coarse=[i for i in (0, 1) if i not in fine], reorder=reorder,
        monitors=[mon_prefix], final_monitors=[fin_equal])


def scenarios(tier):
    S = []
    S.append(mk("late-reader-3msgs-3gets", late_reader_cfg(3, 3, reorder=0 if tier == "quick" else 1), max_depth=90, max_states=300000))
    # the server begins the WebSocket closing handshake while the application keeps sending (those sends raise), then the
    # connection goes away and comes back: every message handed to send_message still arrives once, in order
    wc = cfg([b"m0", b"m1", b"m2"], [], fine=(0,), drops=(1, 0), explored=("down", "up", "api", "connect", "drop", "wsclosing"))
    wc["wsclosing"] = True
    S.append(mk("bfs-3+0-fineA-wsclosing-drop1", wc, max_depth=90, max_states=400000))
    # three (thorough: four) messages one way, the receiver's deliveries explored one by one, any stored message may overtake the ones
    # queued before it (twice): every arrival order of the numbered phases, including one that leaves two gaps open at once
    S.append(mk("bfs-0+3-fineA-reorder2", cfg([], [b"p0", b"p1", b"p2"], fine=(0,), reorder=2, explored=("down", "reorder")), max_depth=90, max_states=400000))
    if True:
        S.append(mk("bfs-0+4-fineA-reorder3", cfg([], [b"p0", b"p1", b"p2", b"p3"], fine=(0,), reorder=3, explored=("down", "reorder")), max_depth=120,
                    max_states=2000000))
        S.append(mk("bfs-0+5-fineA-reorder3-delegate", cfg([], [b"p0", b"p1", b"p2", b"p3", b"p4"], fine=(0,), reorder=3, explored=("down", "reorder"),
                                                           mode="delegate"), max_depth=140, max_states=2000000))
    if tier == "quick":
        S.append(mk("bfs-2+1-fineA", cfg(A2, B1, fine=(0,)), max_depth=80))
        S.append(mk("bfs-1+2-fineB", cfg(B1, B2, fine=(1,)), max_depth=80))
        S.append(mk("bfs-1+1-fineA-drop1", cfg([b"a"], [b"b"], fine=(0,), drops=(1, 0)), max_depth=80, max_states=150000))
        S.append(mk("dev2-2+1-allfaults", cfg(A2, B1, drops=(1, 1), reorder=1, dup=1), dev_bound=2, max_depth=120))
        S.append(mk("dev2-presend-delegate", cfg(A2, B1, drops=(1, 0), reorder=1, dup=1, mode="delegate", pre=True),
                    dev_bound=2, max_depth=120))
    else:
        S.append(mk("bfs-2+1-bothfine", cfg(A2, B1), max_depth=100, max_states=2000000))
        S.append(mk("bfs-1+1-fineA-drop1", cfg([b"a"], [b"b"], fine=(0,), drops=(1, 0)), max_depth=100, max_states=2000000))
        S.append(mk("bfs-1+1-fineB-drop1", cfg([b"a"], [b"b"], fine=(1,), drops=(0, 1)), max_depth=100, max_states=2000000))
        S.append(mk("bfs-2+1-fineA-reorder-dup", cfg(A2, B1, fine=(0,), reorder=2, dup=1), max_depth=100, max_states=2000000))
        S.append(mk("dev3-3+2-allfaults", cfg(A3, B2, drops=(2, 2), reorder=2, dup=2), dev_bound=3, max_depth=160))
        S.append(mk("dev3-presend-delegate", cfg(A3, B2, drops=(1, 1), reorder=1, dup=1, mode="delegate", pre=True),
                    dev_bound=3, max_depth=160))
    return S


def run(chk):
    chk.assumptions += W1_ASSUMPTIONS
    run_scenarios(chk, scenarios(chk.tier))


def replay(body):
    return _replay(body, scenarios(body.get("tier", "quick")))
