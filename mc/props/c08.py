"""C08 - close() completes once, with the right verdict, and frees server resources."""
from .w1common import CODE, mk, run_scenarios, replay as _replay, W1_ASSUMPTIONS

LEVEL = "model_checking"
POSITIVE = ("welcome", "code", "key", "verifier", "versions", "msg")
MOOD = {"happy": "happy", "LonelyError": "lonely", "WrongPasswordError": "scary",
        "ServerError": "errory", "WelcomeError": "unwelcome"}


def mon_close(w):
    strict = not w.cfg.get("weak_verdict")
    for c in w.clients:
        app, g = c.app, c.ghost
        if app.closed > 1:
            w.flag("closed-once", "c%d" % c.ci, "client %d got %d closed notifications: %r" % (c.ci, app.closed, app.obs))
        late = [e for e in app.after_closed if e[0] in POSITIVE or e[0].startswith("got:")]
        if late:
            w.flag("nothing-after-closed", "c%d:%s" % (c.ci, late[0][0]),
                   "client %d was delivered %r after its closed notification" % (c.ci, late))
        if app.closed == 1 and not g["closed_checked"]:
            g["closed_checked"] = True
            v = [val for k, val in app.obs if k == "closed"][0]
            cause = g["cause"]
            allowed = None
            same = w.cfg.get("codes_match", True)
            if cause is None:
                allowed = set(["WrongPasswordError"]) if not same else set()
            elif cause[0] == "close":
                if cause[1]:
                    allowed = {"happy"}
                elif same:
                    allowed = {"LonelyError"} if strict else {"LonelyError", "happy"}
                else:
                    allowed = {"LonelyError", "WrongPasswordError"}
            elif cause[0] == "error":
                allowed = {"ServerError"}
            elif cause[0] == "unwelcome":
                allowed = {"WelcomeError"}
            if not same and cause is not None and cause[0] in ("error", "unwelcome"):
                allowed = allowed | {"WrongPasswordError"}
            if v not in allowed:
                w.flag("verdict", "c%d:%s:%s" % (c.ci, cause, v),
                       "client %d closed with %r but first cause was %r (allowed %r); obs=%r" % (
                           c.ci, v, cause, sorted(allowed), app.obs))
            if v == "happy" and not any(k == "verifier" for k, _ in app.obs) and strict:
                w.flag("verdict", "c%d:happy-without-verifier" % c.ci, "happy without a verifier: %r" % (app.obs,))
            # server resources
            side = c.boss._side
            dump = w.server_dump()
            known = g["claimed_np"] | g["told_np"]
            np_ids = {}
            for (appid, name, mbox) in dump["nameplates"]:
                np_ids[name] = mbox
            rows = w.db.execute("SELECT n.name AS name, s.claimed AS claimed, s.side AS side FROM nameplate_sides s"
                                " JOIN nameplates n ON n.id = s.nameplates_id").fetchall()
            for r in rows:
                if r["side"] == side and r["claimed"] and r["name"] in known:
                    w.flag("nameplate-released", "c%d" % c.ci,
                           "client %d closed (%s) but still holds a claim on nameplate %s" % (c.ci, v, r["name"]))
            if g["sent_open"]:
                mood = MOOD.get(v)
                for (mbox, opened, s, m) in dump["mailbox_sides"]:
                    if s == side and opened and mbox in g["sent_open"]:
                        w.flag("mailbox-closed", "c%d" % c.ci,
                               "client %d closed (%s) but its side of mailbox %s is still open on the server" % (c.ci, v, mbox))
                moods = set(m for (mb, m) in g["srv_close"] if mb in g["sent_open"])
                if mood is not None and moods and moods != {mood}:
                    w.flag("mood", "c%d:%s:%s" % (c.ci, v, sorted(moods)),
                           "client %d verdict %s but closed its mailbox with mood(s) %r" % (c.ci, v, sorted(moods)))
                if mood is not None and not moods:
                    w.flag("mailbox-closed", "c%d:noclose" % c.ci,
                           "client %d sent open but the server never processed a close from it" % c.ci)
            if c.svc.running or (c.conn is not None and c.conn.open):
                w.flag("connection-dropped", "c%d" % c.ci, "client %d closed but its server connection is still up" % c.ci)


def fin_closed(w):
    out = []
    for c in w.clients:
        wants = any(s[0] == "close" for t in c.threads for s in t)
        if wants and c.app.closed != 1 and c.ghost.get("close_rejected"):
            out.append(dict(oracle="closed-eventually", sig="server-rejected-%s" % c.ghost["close_rejected"],
                            msg="client %d closed, the server answered its %s command with an error instead of closed/released and the client "
                                "waits for ever; obs=%r" % (c.ci, c.ghost["close_rejected"], c.app.obs)))
        elif wants and c.app.closed != 1:
            out.append(dict(oracle="closed-eventually", sig="c%d" % c.ci,
                            msg="quiescent but client %d has %d closed notifications; obs=%r; N=%s M=%s T=%s B=%s" % (
                                c.ci, c.app.closed, c.app.obs, st(c.boss._N), st(c.boss._M), st(c.boss._T), st(c.boss))))
    return out


def st(o):
    from ..core.canon import automat_state
    return ",".join(automat_state(o).values())


FLOWS = {
    "set": [("set_code", CODE)],
    "alloc": [("allocate", 2)],
    "input": [("input",), ("nameplate", "4"), ("words", "purple-sausages")],
}


def cfg(flow="set", peer=None, mode="deferred", drops=(1, 0), fine=(0,), sends=0, srverr=0, welcome=None,
        explored=None, peer_close=True, weak=False, **more):
    t0 = list(FLOWS[flow]) + [("send", b"m%d" % i) for i in range(sends)]
    clients = [dict(threads=[t0, [("close",)]], drops=drops[0], mode=mode)]
    match = True
    if peer is not None:
        if peer == "same":
            pc = [("set_code_peer",)] if flow == "alloc" else [("set_code", CODE)]
        else:
            pc = [("set_code", "4-purple-sausagez")]
            match = False
        th = [pc + [("send", b"p0")]]
        if peer_close:
            th.append([("close",)])
        clients.append(dict(threads=th, drops=drops[1], mode=mode))
    d = dict(clients=clients,
             explored=explored or ("down", "up", "api", "connect", "drop", "srverr", "stopfin"),
             coarse=[i for i in range(len(clients)) if i not in fine],
             srverr=srverr, codes_match=match, weak_verdict=weak,
             monitors=[mon_close], final_monitors=[fin_closed])
    if welcome:
        d["welcome"] = welcome
    d.update(more)
    return d


def scenarios(tier):
    S = []
    q = tier == "quick"
    for flow in ("set", "alloc", "input"):
        for mode in ("deferred", "delegate"):
            S.append(mk("solo-%s-%s-drop1" % (flow, mode), cfg(flow, None, mode, drops=(1 if q else 2, 0)), max_depth=80, max_states=400000))
    S.append(mk("pair-same-fine0", cfg("set", "same", "delegate", drops=(0, 0), sends=1), max_depth=100, max_states=400000))
    if not q:
        S.append(mk("pair-same-fine0-drop1", cfg("set", "same", "delegate", drops=(1, 0), sends=1), max_depth=100, max_states=3000000))
    S.append(mk("pair-wrong-fine0-drop%d" % (0 if q else 1), cfg("set", "wrong", "delegate", drops=(0 if q else 1, 0), sends=1), max_depth=100, max_states=400000))
    S.append(mk("pair-alloc-same-fine0", cfg("alloc", "same", "deferred", drops=(0, 0), sends=0), max_depth=100, max_states=400000))
    S.append(mk("solo-set-srverr", cfg("set", None, "delegate", drops=(1, 0), srverr=1), max_depth=80))
    # crowded through a real third claimant (a raw connection that claimed the nameplate first)
    third = [{"type": "bind", "appid": "appid", "side": "third"}, {"type": "claim", "nameplate": "4"}]
    cc = cfg("set", "same", "delegate", drops=(0, 0), fine=(0, 1), sends=0)
    cc["raw"] = [third]
    cc["explored"] = tuple(cc["explored"]) + ("raw",)
    S.append(mk("pair-crowded-by-third-dev2", cc, dev_bound=2 if q else 3, max_depth=150))
    # a reconnect whose WebSocket negotiation fails, around close()
    ch = cfg("set", "same", "delegate", drops=(1, 0), fine=(0,), sends=1)
    ch["hsfail"] = 1
    ch["explored"] = tuple(ch["explored"]) + ("hsfail",)
    S.append(mk("pair-same-fine0-drop1-hsfail-dev3", ch, dev_bound=3 if q else 4, max_depth=150))
    ch2 = cfg("set", None, "deferred", drops=(1, 0))
    ch2["hsfail"] = 1
    ch2["explored"] = tuple(ch2["explored"]) + ("hsfail",)
    S.append(mk("solo-set-drop1-hsfail", ch2, max_depth=80, max_states=400000))
    # close() while the first connection is still negotiating (TCP up, the server's WebSocket answer not yet there): stopping the
    # service closes the transport, Autobahn reports onClose without onOpen, and the verdict is still the application's own close
    for flow, mode in (("set", "deferred"), ("alloc", "delegate"), ("input", "deferred")):
        cn = cfg(flow, None, mode, drops=(0, 0), negotiation=True)
        cn["explored"] = tuple(cn["explored"]) + ("tcpconn", "negabort", "turn")
        S.append(mk("solo-%s-%s-close-while-negotiating" % (flow, mode), cn, max_depth=80, max_states=400000))
    # the server's welcome on a *re*connection carries an error (it was friendly the first time)
    for flow, peer in (("set", None), ("set", "same"), ("alloc", None)):
        cwl = cfg(flow, peer, "delegate" if peer else "deferred", drops=(1, 0), sends=1 if peer else 0, welcome_later={"error": "retired"})
        if peer:
            S.append(mk("pair-%s-unwelcome-on-reconnect-dev" % flow, cwl, dev_bound=3 if q else 4, max_depth=150))
        else:
            S.append(mk("solo-%s-unwelcome-on-reconnect" % flow, cwl, max_depth=100, max_states=400000))
    S.append(mk("solo-set-unwelcome", cfg("set", None, "deferred", drops=(1, 0), welcome={"error": "go away"}), max_depth=80))
    S.append(mk("pair-same-dev2-allfine", cfg("set", "same", "deferred", drops=(1, 1), fine=(0, 1), sends=1, srverr=1),
                dev_bound=2, max_depth=150))
    S.append(mk("pair-same-dev2-turns", cfg("set", "same", "deferred", drops=(1, 0), fine=(0, 1), sends=1, weak=True,
                                              explored=("down", "up", "api", "connect", "drop", "turn", "stopfin")),
                dev_bound=2, max_depth=200))
    if not q:
        S.append(mk("pair-same-bothfine", cfg("set", "same", "delegate", drops=(0, 0), fine=(0, 1), sends=0), max_depth=120, max_states=3000000))
        S.append(mk("pair-input-same-fine0-drop1", cfg("input", "same", "delegate", drops=(1, 0), sends=1), max_depth=120, max_states=3000000))
        S.append(mk("pair-same-fine1-drop1", cfg("set", "same", "deferred", drops=(0, 1), fine=(1,), sends=1), max_depth=120, max_states=3000000))
        S.append(mk("pair-same-dev3-allfine", cfg("set", "same", "deferred", drops=(2, 1), fine=(0, 1), sends=1, srverr=1),
                    dev_bound=3, max_depth=200))
        S.append(mk("pair-wrong-dev3-allfine", cfg("set", "wrong", "delegate", drops=(1, 1), fine=(0, 1), sends=1),
                    dev_bound=3, max_depth=200))
    return S


def run(chk):
    chk.assumptions += W1_ASSUMPTIONS
    chk.assumptions.append("server rows the client cannot know about (claim made by an allocate whose reply was lost; "
                           "implicit open at claim when the client never learned the mailbox) are not counted against the client")
    run_scenarios(chk, scenarios(chk.tier))


def replay(body):
    return _replay(body, scenarios(body.get("tier", "quick")))
