"""C05 - `wormhole receive` writes only where it said it would, and never clobbers."""
import io
import itertools
import multiprocessing as mp
import os
import shutil
import stat
import tempfile
import zipfile

from twisted.internet import defer

from ..env import patches
from ..core.explore import NPROC

patches.install()

from wormhole.cli import cmd_receive  # noqa: E402
from wormhole.timing import DebugTiming  # noqa: E402

LEVEL = "exploration"
COMPONENTS = ["a", "b.txt", "", ".", "..", "~", "-x", " ", "a\\b"]
# names without any ASCII '/' or '.', spelled with compatibility look-alikes (FULLWIDTH SOLIDUS / FULL STOP, ONE / TWO DOT LEADER) or in a
# decomposed form: they are ordinary file names; a receiver that folds them (NFKC, NFC) after its basename guard re-creates '..' and '/'
LOOKALIKES = ["..\uff0f..\uff0fescaped", "\u2025\uff0f\u2025\uff0fx", "\uff0e\uff0e", "\uff0e\uff0e/a", "a/\uff0e\uff0e", "\uff0fabs\uff0fx",
              "a\uff0fb", "\u2024\u2024", "\u2025", "\u2025\uff0fb.txt", "e\u0301.txt", "\uff5e", "..\uff0fa"]
NEW = b"NEW-CONTENT-FROM-SENDER"
OLD = b"old-content"
SCRATCH = "/dev/shm" if os.path.isdir("/dev/shm") else None


def names(maxlen):
    out = []
    seen = set()
    for n in range(1, maxlen + 1):
        for comps in itertools.product(COMPONENTS, repeat=n):
            core = "/".join(comps)
            for lead in ("", "/"):
                for trail in ("", "/"):
                    s = lead + core + trail
                    if s not in seen:
                        seen.add(s)
                        out.append(s)
    for s in LOOKALIKES:
        if s not in seen:
            seen.add(s)
            out.append(s)
    return out


class Args:
    pass


class FakePipe:
    def __init__(self, data, cut=False):
        self.data = data
        self.cut = cut
        self.sent = []

    def describe(self):
        return "fake-pipe"

    def writeToFile(self, f, expected, progress, hasher):
        if self.cut:
            # the connection is lost in the middle of the transfer
            f.write(self.data[:len(self.data) // 2])
            f.flush()
            from twisted.internet import error
            return defer.fail(error.ConnectionClosed())
        f.write(self.data)
        if progress:
            progress(len(self.data))
        if hasher:
            hasher(self.data)
        return defer.succeed(len(self.data))

    def send_record(self, r):
        self.sent.append(r)
        return defer.succeed(None)

    def close(self):
        return defer.succeed(None)


class FakeTransit:
    def __init__(self, pipe):
        self.pipe = pipe

    def connect(self):
        return defer.succeed(self.pipe)


class FakeWormhole:
    def __init__(self):
        self.sent = []

    def send_message(self, data):
        self.sent.append(data)


def snapshot(root):
    snap = {}
    for dirpath, dirnames, filenames in os.walk(root):
        for d in dirnames:
            p = os.path.join(dirpath, d)
            snap[p] = ("link", os.readlink(p)) if os.path.islink(p) else ("dir",)
        for f in filenames:
            p = os.path.join(dirpath, f)
            if os.path.islink(p):
                snap[p] = ("link", os.readlink(p))
            else:
                try:
                    with open(p, "rb") as fh:
                        snap[p] = ("file", fh.read(), stat.S_IMODE(os.lstat(p).st_mode))
                except OSError:
                    snap[p] = ("file", b"<unreadable>")
    return snap


def make_zip(members):
    """members: list of (raw name, is_dir)"""
    buf = io.BytesIO()
    with zipfile.ZipFile(buf, "w") as zf:
        for name, is_dir in members:
            zi = zipfile.ZipInfo(name)
            zi.external_attr = ((stat.S_IFDIR | 0o755) if is_dir else (stat.S_IFREG | 0o644)) << 16
            # write the raw name as given (ZipInfo normalises os.sep only)
            zf.writestr(zi, b"" if is_dir else NEW)
            zi.filename = name
    return buf.getvalue()


BENIGN_ZIP = [("f1.txt", False), ("sub/", True), ("sub/f2.txt", False), ("precious.txt", False)]


def documented_dest(cwd, name, output, output_kind):
    base = os.path.basename(name)
    if output is None:
        return os.path.abspath(os.path.join(cwd, base))
    if output_kind == "existing-dir":
        return os.path.abspath(os.path.join(cwd, output, base))
    return os.path.abspath(os.path.join(cwd, output))


OUTPUTS = [(None, None), ("out-new", "new"), ("exist.txt", "existing-file"), ("exdir", "existing-dir"), ("../sibling/out", "dotdot")]


def run_case(case):
    """case = dict(mode, name, output, output_kind, pre, pretmp, accept, members)"""
    root = tempfile.mkdtemp(prefix="c05-", dir=SCRATCH)
    try:
        cwd = os.path.join(root, "cwd")
        os.makedirs(cwd)
        os.makedirs(os.path.join(root, "sibling"))
        os.makedirs(os.path.join(cwd, "exdir"))
        os.makedirs(os.path.join(cwd, "a-sibling-dir"))      # prefix traps for startswith checks
        os.makedirs(os.path.join(cwd, "d-evil"))
        for p in ("sentinel.txt", "sibling/keep.txt", "cwd/exist.txt", "cwd/exdir/inside.txt", "cwd/other.txt",
                  "cwd/a-sibling-dir/keep.txt", "cwd/d-evil/x"):
            with open(os.path.join(root, p), "wb") as f:
                f.write(OLD)
            os.chmod(os.path.join(root, p), 0o600)
        dest = documented_dest(cwd, case["name"], case["output"], case["output_kind"])
        pre = case["pre"]
        if pre != "none" and not os.path.lexists(dest) and dest.startswith(cwd + os.sep):
            if pre == "file":
                with open(dest, "wb") as f:
                    f.write(OLD)
            elif pre == "dir":
                os.makedirs(dest)
            elif pre == "nonempty-dir":
                os.makedirs(dest)
                with open(os.path.join(dest, "precious.txt"), "wb") as f:
                    f.write(OLD)
        if case["pretmp"] != "none" and dest.startswith(cwd + os.sep) and not os.path.lexists(dest + ".tmp"):
            if case["pretmp"] == "file":
                with open(dest + ".tmp", "wb") as f:
                    f.write(OLD)
            else:
                os.makedirs(dest + ".tmp")
        before = snapshot(root)
        args = Args()
        args.relay_url = "ws://x"
        args.cwd = cwd
        args.output_file = case["output"]
        args.accept_file = case["accept"] == "on"
        args.stderr = io.StringIO()
        args.stdout = io.StringIO()
        args.timing = DebugTiming()
        args.hide_progress = True
        cmd_receive.input = lambda prompt="": ("y" if case["accept"] == "off-yes" else "n")
        old_cwd = os.getcwd()
        os.chdir(cwd)
        try:
            r = cmd_receive.Receiver(args, reactor=None)
            if case["mode"] == "file":
                offer = {"file": {"filename": case["name"], "filesize": len(NEW)}}
                data = NEW
            else:
                data = make_zip(case["members"])
                offer = {"directory": {"mode": "zipfile/deflated", "dirname": case["name"], "zipsize": len(data),
                                       "numbytes": len(NEW) * 2, "numfiles": 2}}
            r._transit_receiver = FakeTransit(FakePipe(data, cut=bool(case.get("cut"))))
            w = FakeWormhole()
            result = []
            try:
                d = r._parse_offer(offer, w)
                d.addCallbacks(lambda v: result.append(("ok", None)), lambda f: result.append(("fail", type(f.value).__name__)))
            except Exception as e:
                result.append(("raise", type(e).__name__))
        finally:
            os.chdir(old_cwd)
            # make everything traversable again (zip members may carry mode 000)
            for dp, dn, fn in os.walk(root):
                for x in dn:
                    try:
                        os.chmod(os.path.join(dp, x), 0o755)
                    except OSError:
                        pass
        after = snapshot(root)
        announced = getattr(r, "abs_destname", None)
        return judge(case, root, cwd, dest, announced, before, after, result[0] if result else ("pending", None))
    finally:
        shutil.rmtree(root, ignore_errors=True)


def judge(case, root, cwd, dest, announced, before, after, result):
    viol = []
    changed = []
    for p in set(before) | set(after):
        if before.get(p) != after.get(p):
            changed.append(p)
    rel = lambda p: os.path.relpath(p, root)   # noqa: E731
    ok = result[0] == "ok"

    def flag(oracle, sig, msg):
        viol.append(dict(oracle=oracle, sig=sig, msg="%s [case %r result %r]" % (msg, {k: case[k] for k in case if k != "members"} | (
            {"members": case["members"]} if case["mode"] == "directory" else {}), result), case=case))
    if announced is not None and announced != dest:
        flag("destination", "announced", "announced destination %s is not the documented one %s" % (rel(announced), rel(dest)))
    if case.get("cut") and ok:
        flag("cut-transfer", "succeeded", "the connection was lost half way through the transfer but the receive succeeded")
    if case["output"] is None and ok:
        if os.path.dirname(dest) != cwd or dest == cwd:
            flag("destination", "not-a-child", "succeeded with destination %s which is not a child of the working directory" % rel(dest))
    if case["output_kind"] == "existing-dir" and ok:
        target = os.path.abspath(os.path.join(cwd, case["output"]))
        if os.path.dirname(dest) != target or dest == target:
            flag("destination", "not-a-child-of-output-dir",
                 "succeeded with destination %s which is not a child of the --output-file directory %s" % (rel(dest), rel(target)))
    if ok and dest in before and before[dest][0] == "dir":
        flag("refuse-existing", "unpacked-over-existing-directory",
             "the destination %s was an existing directory and the transfer succeeded (merged into it)" % rel(dest))
    for p in changed:
        inside = (p == dest or p.startswith(dest + os.sep))
        tmp = (p == dest + ".tmp")
        if not (inside or tmp):
            flag("writes-elsewhere", "path", "%s was %s although the destination is %s" % (
                rel(p), "created" if p not in before else ("removed" if p not in after else "changed"), rel(dest)))
        if p in before and before[p][0] == "dir" and p not in after:
            flag("directory-deleted", "dir", "existing directory %s was deleted" % rel(p))
        if p in before and before[p][0] == "dir" and p in after and after[p][0] != "dir":
            flag("directory-deleted", "dir-replaced", "existing directory %s was replaced" % rel(p))
        if p in before and before[p][0] == "file":
            named = case["output"] is not None and (p == dest)
            if not named:
                kind = "tmp" if tmp else ("inside-destination" if inside else "elsewhere")
                flag("file-clobbered", kind, "existing file %s was %s without --output-file naming it" % (
                    rel(p), "removed" if p not in after else "replaced"))
    if case["output"] is None and dest in before:
        if ok:
            flag("refuse-existing", "succeeded", "destination %s existed and no --output-file was given, but the transfer succeeded" % rel(dest))
        if changed:
            flag("refuse-existing", "tree-changed", "destination existed, transfer must fail with an unchanged tree; changed: %r" % [rel(p) for p in changed])
    if result == ("fail", "TransferRejectedError") and changed:
        # the receiver refused (existing destination, or the user said no): nothing was announced as written, nothing may change
        flag("refused-but-wrote", "tree-changed", "the transfer was refused, yet the tree changed: %r" % sorted(
            "%s %s" % (rel(p), "created" if p not in before else ("removed" if p not in after else "changed")) for p in changed))
    if case["accept"] == "off-no" and (ok or [p for p in changed if p != dest + ".tmp" and not (case["output"] and p == dest)]):
        if ok:
            flag("permission", "no-means-no", "the user answered no but the transfer succeeded")
    return viol, result, len(changed)


def cases(tier):
    out = []
    nm = names(2)
    pres = ["none", "file", "dir", "nonempty-dir"]
    accepts = ["on", "off-yes", "off-no"]
    if tier != "quick":
        # three-component names: the full configuration matrix would be ~400k sandboxes; they get the two
        # configurations in which the name alone decides the destination
        short = set(nm)
        for mode in ("file", "directory"):
            for name in names(3):
                if name in short:
                    continue
                for (output, kind) in ((None, None), ("exdir", "existing-dir")):
                    for acc in ("on", "off-yes"):
                        out.append(dict(mode=mode, name=name, output=output, output_kind=kind, pre="none", pretmp="none",
                                        accept=acc, members=BENIGN_ZIP))
    for mode in ("file", "directory"):
        for name in nm:
            for (output, kind) in OUTPUTS:
                for pre in (pres if (output is None or kind == "existing-dir") else ["none"]):
                    for acc in accepts:
                        out.append(dict(mode=mode, name=name, output=output, output_kind=kind, pre=pre, pretmp="none",
                                        accept=acc, members=BENIGN_ZIP))
    # pre-existing "<dest>.tmp"
    for mode in ("file", "directory"):
        for name in ("a", "b.txt", "x/a"):
            for (output, kind) in OUTPUTS[:4]:
                for pretmp in ("file", "dir"):
                    for acc in accepts:
                        out.append(dict(mode=mode, name=name, output=output, output_kind=kind, pre="none", pretmp=pretmp,
                                        accept=acc, members=BENIGN_ZIP))
    # the transfer is cut half way: whatever is left behind must still be at the announced place
    for mode in ("file", "directory"):
        for name in nm + ["../sibling/evil", "../../sentinel.txt", "/abs/evil", "sub/../../sibling/x", "a/../../sibling/keep.txt"]:
            for (output, kind) in ((None, None), ("exdir", "existing-dir"), ("out-new", "new")):
                out.append(dict(mode=mode, name=name, output=output, output_kind=kind, pre="none", pretmp="none",
                                accept="on", members=BENIGN_ZIP, cut=True))
    # zip member names
    mnames = names(2) + ["/etc/passwd", "../../sentinel.txt", "../a-sibling-dir/keep.txt", "../d-evil/x",
                                                   "sub/../../other.txt", "./f", "f/", "a/../b", "..", "../", "/", "C:\\x", "a/./b"]
    seen = set()
    memberlists = []
    for m in mnames:
        for is_dir in (False, True):
            memberlists.append([(m, is_dir)])
    pairs = mnames if tier != "quick" else ["a", "a/", "../x", "/abs", "", "a/b", "..", "a/../../x"]
    for m1 in pairs:
        for m2 in pairs:
            memberlists.append([(m1, False), (m2, False)])
            memberlists.append([(m1, True), (m2, False)])
    for ml in memberlists:
        k = repr(ml)
        if k in seen:
            continue
        seen.add(k)
        for (output, kind) in ((None, None), ("exdir", "existing-dir"), ("out-new", "new")):
            out.append(dict(mode="directory", name="d", output=output, output_kind=kind, pre="none", pretmp="none",
                            accept="on", members=ml))
    return out


def _work(chunk):
    import sys
    res = []
    sys.stderr = open(os.devnull, "w")     # cmd_receive prints "transfer rejected" to the process stderr
    for case in chunk:
        try:
            viol, result, nchanged = run_case(case)
        except Exception as e:
            import traceback
            viol, result, nchanged = [dict(oracle="harness-error", sig=type(e).__name__, msg=traceback.format_exc()[-600:], case=case)], ("harness", None), 0
        res.append((viol, result, nchanged, case["mode"], case["output_kind"], case["pre"]))
    return res


def run(chk):
    chk.assumptions += ["the transit leg is a fake record pipe that supplies the bytes (C04/C06 cover the real one)",
                        "the file system is tmpfs under /dev/shm or /tmp with POSIX semantics",
                        "interactive confirmation is answered through a patched input()"]
    cs = cases(chk.tier)
    chunks = [cs[i:i + 200] for i in range(0, len(cs), 200)]
    ctx = mp.get_context("fork")
    viol = []
    outcomes = {}
    keys = set()
    n = 0
    with ctx.Pool(NPROC) as pool:
        for res in pool.imap_unordered(_work, chunks):
            for v, result, nchanged, mode, ok_, pre in res:
                n += 1
                outcomes[(mode, result)] = outcomes.get((mode, result), 0) + 1
                keys.add((mode, ok_, pre, result, nchanged > 0))
                for x in v:
                    viol.append(x)
    chk.extra["outcomes"] = {"%s:%s:%s" % (m, r[0], r[1]): c for (m, r), c in sorted(outcomes.items(), key=repr)}
    samples = [{k: c[k] for k in ("mode", "name", "output", "pre", "accept")} for c in cs[1000:20000:4000]]
    # deduplicate violations by signature but keep counts
    chk.add_enum("receive-destinations", n, keys,
                 "offer names = all sequences of <=2 (thorough 3) components from %r joined by '/', optional leading/trailing '/', x {file, directory} "
                 "x --output-file {unset, new, existing file, existing dir, path with ..} x pre-existing destination {none, file, dir, non-empty dir} "
                 "x accept {on, ask-yes, ask-no}; zip member name lists (<=2 members, file/dir entries, absolute, .., empty, duplicate) x 3 output "
                 "configurations; pre-existing <dest>.tmp; each run in a fresh sandbox with full before/after snapshots; distinct_nontrivial = "
                 "distinct (mode, output kind, pre-existing kind, result, tree changed) classes" % (COMPONENTS,),
                 samples, viol)


def replay(body):
    c = body.get("case")
    if isinstance(c, dict) and "mode" in c:
        c["members"] = [tuple(m) for m in c.get("members", BENIGN_ZIP)]
        viol, result, nchanged = run_case(c)
        print("result:", result, "paths changed:", nchanged)
        for v in viol:
            print("VIOLATION-REPLAYED", v["oracle"], v["sig"], v["msg"])
        return 1 if viol else 0
    return 2
