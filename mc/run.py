"""Entry point: ./check <id> [--tier quick|thorough] [--replay path]"""
import argparse
import importlib
import json
import os
import sys


def main():
    ap = argparse.ArgumentParser()
    ap.add_argument("prop")
    ap.add_argument("--tier", default=os.environ.get("VERIF_TIER") or "quick")
    ap.add_argument("--replay")
    ap.add_argument("--only", help="run only scenarios whose name contains this")
    ap.add_argument("--keyof", help="(internal) print the state key of the history in this file, replayed in this fresh interpreter")
    a = ap.parse_args()
    seed = int(os.environ.get("VERIF_SEED", "0") or 0)
    if a.tier == "thorough" and not os.environ.get("VERIF_SCENARIO_WALL"):
        # thorough scenarios are as deep as we can build; each is given a wall-clock budget and reports when it hits it
        os.environ["VERIF_SCENARIO_WALL"] = "1200"
    prop = a.prop.upper()
    mod = importlib.import_module("mc.props.%s" % prop.lower())
    os.environ["VERIF_PROP"] = prop
    os.environ["VERIF_TIER_CUR"] = a.tier
    if a.keyof:
        with open(a.keyof) as f:
            body = json.load(f)
        for sc in mod.scenarios(body.get("tier", a.tier)):
            if sc.name == body["scenario"]:
                w = sc.factory()
                for e in body["events"]:
                    w.apply(tuple(e))
                print("KEY", w.key().hex())
                sys.exit(0)
        sys.exit(2)
    if a.replay:
        with open(a.replay) as f:
            body = json.load(f)
        if body.get("oracle") == "instance-isolation":
            # not a property of one history: re-run the scenario in one process until a replay disagrees with itself
            from mc.core.explore import explore
            for sc in mod.scenarios(body.get("tier", a.tier)):
                if sc.name == body["scenario"]:
                    res = explore(sc, nproc=1)
                    for v in res.violations:
                        print("VIOLATION-REPLAYED oracle=%s sig=%s: %s" % (v["oracle"], v.get("sig"), v["msg"]))
                    sys.exit(1 if res.violations else 0)
            sys.exit(2)
        sys.exit(mod.replay(body))
    from mc.core.report import Check
    chk = Check(prop, a.tier, seed, level=getattr(mod, "LEVEL", "model_checking"))
    chk.only = a.only
    try:
        mod.run(chk)
    except SystemExit:
        raise
    except BaseException:
        # a harness error (e.g. DIVERGENCE) is fatal either way, but violations already on record are still reported
        import traceback
        traceback.print_exc()
        chk.finish()
        print("%s HARNESS ERROR (see traceback above) -> exit 1" % prop)
        sys.exit(1)
    sys.exit(chk.finish())


if __name__ == "__main__":
    main()
