"""Generic canonical image of a live object graph.

image(roots) walks everything reachable from the roots through __dict__ /
__slots__ / containers and emits a nested tuple of primitives that is equal
for two graphs iff every field any future transition can read is equal.
Object identity is replaced by first-visit index (so aliasing structure is
kept), sets and dict keys are sorted, Automat machine state is read from the
per-instance transitioner, Deferreds / DelayedCalls / bound methods get small
structural images.  A deny-list (by attribute name) drops fields that are
write-only diagnostics.
"""
import hashlib
import types
from collections import deque

from twisted.internet.defer import Deferred
from twisted.python.failure import Failure

DENY_ATTRS = frozenset([
    "_timing", "_trace", "_start_timing", "_debug_record_inbound_f",
    "set_trace", "_current_wormhole_status", "_on_status_update",
    "_evolve_status", "_evolve_wormhole_status", "_reactor", "_clock",
    "_journal", "_tor", "_cooperator", "_main_thread",
])

PRIMS = (int, float, bool, str, type(None))


def automat_state(obj):
    """Return {symbol: state-name} for every MethodicalMachine on obj's class."""
    out = {}
    for klass in type(obj).__mro__:
        for name, v in vars(klass).items():
            if type(v).__name__ == "MethodicalMachine":
                out[name] = machine_state(obj, v)
    return out


def machine_state(obj, mm):
    tr = getattr(obj, mm._symbol, None)
    if tr is None:
        st = mm._automaton.initialState
    else:
        st = tr._state
    return getattr(getattr(st, "method", st), "__name__", repr(st))


class Imager:
    def __init__(self, deny=DENY_ATTRS, opaque_types=(), bytes_limit=24):
        self.deny = deny
        self.opaque = tuple(opaque_types)
        self.ids = {}
        self.keep = []
        self.bytes_limit = bytes_limit

    def bytes_img(self, b):
        if len(b) <= self.bytes_limit:
            return ("b", bytes(b).hex())
        return ("B", len(b), hashlib.blake2b(bytes(b), digest_size=8).hexdigest())

    def img(self, o, depth=0):
        if isinstance(o, PRIMS):
            return o
        if isinstance(o, (bytes, bytearray, memoryview)):
            return self.bytes_img(bytes(o))
        if depth > 40:
            return ("deep", type(o).__name__)
        if isinstance(o, (list, tuple, deque)):
            return (type(o).__name__[0],) + tuple(self.img(x, depth + 1) for x in o)
        if type(o).__name__ == "OSet":
            return ("os",) + tuple(self.img(x, depth + 1) for x in o)
        if isinstance(o, (set, frozenset)):
            return ("s",) + tuple(sorted((self.img(x, depth + 1) for x in o), key=repr))
        if isinstance(o, dict):
            # insertion order is kept: it is observable (Mailbox._drain iterates it)
            items = [(self.img(k, depth + 1), self.img(v, depth + 1)) for k, v in o.items()]
            return ("d",) + tuple(items)
        if isinstance(o, (types.FunctionType, types.BuiltinFunctionType, type)):
            return ("f", getattr(o, "__qualname__", repr(o)))
        if isinstance(o, types.MethodType):
            return ("m", o.__func__.__qualname__, self.img(o.__self__, depth + 1))
        if isinstance(o, BaseException):
            return ("exc", type(o).__name__, str(o)[:80])
        if isinstance(o, Failure):
            return ("failure", type(o.value).__name__, str(o.value)[:80])
        oid = id(o)
        if oid in self.ids:
            return ("@", self.ids[oid])
        self.ids[oid] = n = len(self.ids)
        self.keep.append(o)
        tn = type(o).__name__
        if self.opaque and isinstance(o, self.opaque):
            return ("opaque", tn, n)
        if isinstance(o, Deferred):
            res = getattr(o, "result", _NORES)
            return ("D", n, o.called, None if res is _NORES else self.img(res, depth + 1),
                    len(o.callbacks))
        if tn == "DelayedCall":
            return ("DC", n, o.cancelled, o.called, ("f", getattr(o.func, "__qualname__", "?")))
        fields = []
        d = getattr(o, "__dict__", None)
        if d is not None:
            for k in sorted(d):
                if k in self.deny or k.startswith("_symbol_"):
                    continue
                fields.append((k, self.img(d[k], depth + 1)))
        for klass in type(o).__mro__:
            for s in getattr(klass, "__slots__", ()) or ():
                if s in ("__weakref__", "__dict__") or s in self.deny:
                    continue
                if hasattr(o, s):
                    fields.append((s, self.img(getattr(o, s), depth + 1)))
        st = automat_state(o)
        if st:
            fields.append(("<automat>", tuple(sorted(st.items()))))
        if not fields and d is None:
            return ("o", tn, n, repr(o)[:60] if type(o).__repr__ is not object.__repr__ else "")
        return ("o", tn, n) + tuple(fields)


_NORES = object()


def image(roots, **kw):
    im = Imager(**kw)
    return im.img(roots)


def key_of(img):
    return hashlib.blake2b(repr(img).encode(), digest_size=16).digest()
