"""Explicit-state, replay-based, deviation-boundable BFS over a *world* whose
transitions are calls into the real implementation.

A node is the event history that reaches it.  Expanding a node builds a fresh
world, replays the history (checking that the replay reproduces the recorded
state key: determinism), then tries every enabled event, each on its own fresh
replay.  States are deduplicated on world.key().  With dev_bound=None the
search is a complete BFS of the scenario's state graph (up to max_depth); with
dev_bound=d only executions that depart at most d times from the default
choice (the first enabled event) are followed, with dominance pruning on
(state, deviations used).
"""
import multiprocessing as mp
import os
import time
import traceback

NPROC = int(os.environ.get("VERIF_NPROC", "0")) or min(16, os.cpu_count() or 1)


class Divergence(Exception):
    pass


class Scenario:
    def __init__(self, name, factory, max_depth=200, dev_bound=None,
                 max_states=None, recheck_every=50, note=""):
        self.name = name
        self.factory = factory      # factory() -> World
        self.max_depth = max_depth
        self.dev_bound = dev_bound
        self.max_states = max_states
        self.recheck_every = recheck_every
        self.note = note
        # wall-clock budget of one scenario (seconds); a run that exceeds it stops after the current level and reports the cap
        self.max_wall = float(os.environ.get("VERIF_SCENARIO_WALL", "0") or 0) or None


class Result:
    def __init__(self, name):
        self.name = name
        self.states = 0
        self.transitions = 0
        self.replays = 0          # worlds built and histories replayed on the real code
        self.rechecks = 0         # determinism double-replays
        self.executions = 0       # quiescent (terminal) states reached
        self.max_depth = 0
        self.outcomes = {}        # outcome repr -> count
        self.violations = []      # dicts
        self.caps_hit = []
        self.samples = []
        self.wall = 0.0
        self.dev_bound = None
        self.extra = {}
        self.coverage = set()

    def summary(self):
        return dict(scenario=self.name, states=self.states, transitions=self.transitions,
                    replays=self.replays, determinism_rechecks=self.rechecks,
                    terminal_states=self.executions, max_depth=self.max_depth,
                    distinct_outcomes=len(self.outcomes), caps_hit=self.caps_hit,
                    deviation_bound=self.dev_bound, wall_s=round(self.wall, 2),
                    exhaustive=not self.caps_hit, **self.extra)


_SCN = None
_KNOWN = None


def _known_sigs():
    """(oracle, sig) pairs listed in known_findings.json: hitting one of them does not cut the search short"""
    global _KNOWN
    if _KNOWN is None:
        from .report import load_known
        _KNOWN = set((k["oracle"], k["sig"]) for k in load_known().get("findings", []))
    return _KNOWN


def _replay(scn, hist):
    w = scn.factory()
    for ev in hist:
        w.apply(ev)
    return w


class StepTimeout(BaseException):
    pass


def _alarm(signum, frame):
    raise StepTimeout()


def _expand(task):
    """task = (hist, key, dev) -> list of child records"""
    import signal
    hist, key, dev = task
    scn = _SCN
    out = []
    nreplay = 0
    nrecheck = 0
    signal.signal(signal.SIGALRM, _alarm)
    signal.setitimer(signal.ITIMER_REAL, float(os.environ.get("VERIF_STEP_TIMEOUT", "120")))
    try:
        w = _replay(scn, hist)
        nreplay += 1
        if key is not None and w.key() != key:
            raise Divergence("replay of %r gave a different state" % (hist,))
        en = w.enabled()
        for idx, ev in enumerate(en):
            ndev = dev + (1 if idx > 0 else 0) if scn.dev_bound is not None else 0
            if scn.dev_bound is not None and ndev > scn.dev_bound:
                break
            if idx > 0:
                w = _replay(scn, hist)
                nreplay += 1
                en2 = w.enabled()
                if en2 != en:
                    raise Divergence("enabled menu differs on replay of %r: %r vs %r" % (hist, en, en2))
            w.apply(ev)
            k = w.key()
            viol = w.violations()
            nen = w.enabled()
            terminal = not nen
            if terminal:
                viol = viol + w.final_violations()
            if scn.recheck_every and (k[0] * 256 + k[1]) % scn.recheck_every == 0:
                w2 = _replay(scn, hist + [ev])
                nrecheck += 1
                if w2.key() != k:
                    raise Divergence("double replay of %r differs" % (hist + [ev],))
            out.append(dict(ev=ev, key=k, dev=ndev, viol=viol, terminal=terminal,
                            outcome=w.outcome() if terminal else None,
                            cov=w.coverage() if hasattr(w, "coverage") else None))
    except StepTimeout:
        # one expansion (a handful of replays) must never take this long: the implementation is looping
        return dict(livelock=True, hist=hist, nreplay=nreplay, nrecheck=nrecheck, children=out)
    except Divergence as e:
        return dict(error="DIVERGENCE: %s" % e, hist=hist)
    except Exception:
        return dict(error="HARNESS ERROR: " + traceback.format_exc(), hist=hist)
    finally:
        signal.setitimer(signal.ITIMER_REAL, 0)
    return dict(children=out, nreplay=nreplay, nrecheck=nrecheck)


def _fresh_key(scn, hist):
    """state key of `hist` replayed in a brand-new interpreter, where nothing an earlier world did can be seen"""
    import json
    import subprocess
    import sys
    import tempfile
    prop = os.environ.get("VERIF_PROP")
    if not prop:
        return None
    body = dict(scenario=scn.name, tier=os.environ.get("VERIF_TIER_CUR", "quick"), events=[list(e) for e in hist])
    with tempfile.NamedTemporaryFile("w", suffix=".json", delete=False) as f:
        json.dump(body, f)
    try:
        out = subprocess.run([sys.executable, "-W", "ignore", "-m", "mc.run", prop, "--tier", body["tier"], "--keyof", f.name],
                             capture_output=True, text=True, timeout=600)
        for line in out.stdout.splitlines():
            if line.startswith("KEY "):
                return line.split()[1]
    except Exception:
        pass
    finally:
        os.unlink(f.name)
    return None


def _classify_divergence(scn, hist, err):
    """A replay that gives another state than the first run of the same history is a harness error (uncontrolled
    nondeterminism) -- unless two replays in fresh interpreters agree with each other: then the implementation keeps state
    outside the objects of one session (module / class level, shared mutable default) and a session's behaviour depends on
    what earlier, unrelated sessions in the same process did."""
    try:
        json_ok = all(not isinstance(x, (bytes, bytearray)) for e in hist for x in e)
    except TypeError:
        json_ok = False
    if not json_ok:
        return None
    k1 = _fresh_key(scn, hist)
    k2 = _fresh_key(scn, hist) if k1 else None
    if k1 and k1 == k2:
        return dict(oracle="instance-isolation", sig="state-shared-between-sessions", history=hist,
                    msg="replaying this history in this process gave a state different from the one first computed for it, while two replays in "
                        "fresh interpreters agree (%s): the implementation keeps state outside the session's own objects, so sessions in one "
                        "process influence each other [%s]" % (k1[:12], err[:160]))
    return None


def explore(scn, nproc=None, log=None, stop_on_violation=False, max_violations=25):
    global _SCN
    _SCN = scn
    nproc = nproc or NPROC
    res = Result(scn.name)
    res.dev_bound = scn.dev_bound
    t0 = time.time()
    w0 = scn.factory()
    k0 = w0.key()
    v0 = w0.violations()
    res.replays += 1
    seen = {k0: 0}            # key -> min deviations used
    frontier = [([], k0, 0)]
    res.states = 1
    sigs = set()
    for v in v0:
        res.violations.append(dict(v, history=[]))
    pool = None
    if nproc > 1:
        ctx = mp.get_context("fork")
        pool = ctx.Pool(nproc)
    depth = 0
    try:
        while frontier:
            if depth >= scn.max_depth:
                res.caps_hit.append("max_depth=%d with %d frontier states" % (scn.max_depth, len(frontier)))
                break
            if pool and len(frontier) > 4:
                cs = max(1, min(64, len(frontier) // (nproc * 4) or 1))
                results = pool.imap(_expand, frontier, chunksize=cs)
            else:
                results = map(_expand, frontier)
            nxt = []
            capped = False
            for task, r in zip(frontier, results):
                if "error" in r:
                    v = _classify_divergence(scn, r.get("hist", task[0]), r["error"]) if r["error"].startswith("DIVERGENCE") else None
                    if v is None:
                        raise RuntimeError(r["error"])
                    res.violations.append(v)
                    res.caps_hit.append("stopped: sessions are not isolated from each other, further exploration would be meaningless")
                    nxt = []
                    break
                hist = task[0]
                if r.get("livelock"):
                    sig = ("livelock", "expansion-timeout")
                    if sig not in sigs:
                        sigs.add(sig)
                        res.violations.append(dict(oracle="livelock", sig="expansion-timeout", history=hist,
                                                   msg="expanding this state did not finish within the step timeout: some event "
                                                       "handler or the eager closure after it never terminates"))
                res.replays += r["nreplay"]
                res.rechecks += r["nrecheck"]
                for c in r["children"]:
                    res.transitions += 1
                    if c.get("cov"):
                        res.coverage |= c["cov"]
                    child_hist = hist + [c["ev"]]
                    bad = False
                    for v in c["viol"]:
                        bad = True
                        sig = (v["oracle"], v.get("sig"))
                        if sig not in sigs:
                            sigs.add(sig)
                            res.violations.append(dict(v, history=child_hist))
                    k = c["key"]
                    old = seen.get(k)
                    if old is not None and old <= c["dev"]:
                        continue
                    if old is None:
                        res.states += 1
                        if len(res.samples) < 3 and c["terminal"]:
                            res.samples.append(child_hist)
                    seen[k] = c["dev"]
                    if c["terminal"]:
                        if old is None:
                            res.executions += 1
                            o = repr(c["outcome"])
                            res.outcomes[o] = res.outcomes.get(o, 0) + 1
                        continue
                    if bad:
                        continue      # do not explore beyond a violating state
                    if scn.max_states and res.states >= scn.max_states:
                        capped = True
                        continue
                    nxt.append((child_hist, k, c["dev"]))
                if stop_on_violation and res.violations:
                    nxt = []
                    break
                if len(res.violations) >= max_violations:
                    nxt = []
                    res.caps_hit.append("max_violations=%d" % max_violations)
                    break
            if capped:
                res.caps_hit.append("max_states=%d" % scn.max_states)
            frontier = nxt
            depth += 1
            res.max_depth = depth
            if scn.max_wall and frontier and time.time() - t0 > scn.max_wall:
                res.caps_hit.append("wall budget %.0fs reached at depth %d with %d frontier states" % (scn.max_wall, depth, len(frontier)))
                frontier = []
            if [v for v in res.violations if (v["oracle"], v.get("sig")) not in _known_sigs()]:
                # a new violation is on record: finish at most two more levels (to collect sibling signatures), then stop
                first_viol_depth = getattr(res, "_first_viol_depth", None)
                if first_viol_depth is None:
                    res._first_viol_depth = first_viol_depth = depth
                if depth >= first_viol_depth + 2 and frontier:
                    res.caps_hit.append("stopped %d levels after the first violation" % (depth - first_viol_depth))
                    frontier = []
            if log:
                log("  [%s] depth %d: states=%d transitions=%d frontier=%d viol=%d %.1fs" % (
                    scn.name, depth, res.states, res.transitions, len(frontier),
                    len(res.violations), time.time() - t0))
    finally:
        if pool:
            pool.terminate()
            pool.join()
    if not res.samples:
        res.samples.append([])
    res.wall = time.time() - t0
    return res


def run_linear(factory, hist):
    """Plain replay, no explorer: used by --replay and by generated tests."""
    w = factory()
    for ev in hist:
        w.apply(ev)
    v = w.violations()
    if not w.enabled():
        v = v + w.final_violations()
    return w, v
