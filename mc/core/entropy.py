"""Deterministic randomness.  Every byte the library draws comes from a
counter-mode stream keyed by (VERIF_SEED, tag).  Tags are chosen so that the
bytes drawn for one logical purpose do not depend on the interleaving of
unrelated events (e.g. nonces are per client, message ids are constant)."""
import hashlib


class Stream:
    def __init__(self, seed, tag):
        self.key = ("%d/%s" % (seed, tag)).encode()
        self.ctr = 0

    def read(self, n):
        out = b""
        while len(out) < n:
            out += hashlib.blake2b(self.key + b"/%d" % self.ctr,
                                   digest_size=32).digest()
            self.ctr += 1
        return out[:n]


def digest(*parts):
    h = hashlib.blake2b(digest_size=12)
    for p in parts:
        if isinstance(p, str):
            p = p.encode()
        h.update(b"%d:" % len(p))
        h.update(p)
    return h.hexdigest()
