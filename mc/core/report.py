"""Evidence files, violation artefacts, known findings."""
import hashlib
import json
import os
import sys
import time

VERIF = os.path.dirname(os.path.dirname(os.path.dirname(os.path.abspath(__file__))))
_OUT = os.environ.get("VERIF_OUT") or VERIF   # mutation runs redirect their output
EVID = os.path.join(_OUT, "evidence")
REPLAYS = os.path.join(_OUT, "replays")
KNOWN = os.path.join(VERIF, "known_findings.json")


def jsonable(o):
    if isinstance(o, (bytes, bytearray)):
        return "hex:" + bytes(o).hex() if len(o) <= 64 else "bytes[%d]:%s" % (
            len(o), hashlib.blake2b(bytes(o), digest_size=8).hexdigest())
    if isinstance(o, (list, tuple)):
        return [jsonable(x) for x in o]
    if isinstance(o, (set, frozenset)):
        return sorted((jsonable(x) for x in o), key=repr)
    if isinstance(o, dict):
        return {str(k): jsonable(v) for k, v in o.items()}
    if isinstance(o, (int, float, str, bool)) or o is None:
        return o
    return repr(o)


def load_known():
    try:
        with open(KNOWN) as f:
            return json.load(f)
    except FileNotFoundError:
        return {"findings": [], "fixed": []}


class Check:
    """Collects scenario results / enumeration results for one property and
    writes the evidence file and the verdict."""

    def __init__(self, prop, tier, seed, level="model_checking"):
        self.prop = prop
        self.tier = tier
        self.seed = seed
        self.level = level
        self.t0 = time.time()
        self.scenarios = []
        self.states = 0
        self.transitions = 0
        self.replays = 0
        self.rechecks = 0
        self.executions = 0
        self.outcomes = 0
        self.evaluations = 0
        self.nontrivial = set()
        self.samples = []
        self.violations = []
        self.assumptions = []
        self.caps = []
        self.extra = {}
        self.rules = []

    def log(self, msg):
        print(msg, flush=True)

    # -- model-checking results
    def add_result(self, res, replay_info=None):
        s = res.summary()
        self.scenarios.append(s)
        self.states += res.states
        self.transitions += res.transitions
        self.replays += res.replays
        self.rechecks += res.rechecks
        self.executions += res.executions
        self.outcomes += len(res.outcomes)
        if res.caps_hit:
            self.caps.append("%s: %s" % (res.name, "; ".join(res.caps_hit)))
        if len(self.samples) < 6:
            for h in res.samples[:2]:
                self.samples.append({"scenario": res.name, "events": jsonable(h)})
        for v in res.violations:
            v = dict(v)
            v["scenario"] = res.name
            if replay_info:
                v["replay_info"] = replay_info
            self.violations.append(v)
        self.log("  %s: states=%d transitions=%d terminal=%d outcomes=%d depth=%d viol=%d%s %.1fs" % (
            res.name, res.states, res.transitions, res.executions, len(res.outcomes),
            res.max_depth, len(res.violations),
            " CAPS=%s" % res.caps_hit if res.caps_hit else "", res.wall))

    # -- enumeration results
    def add_enum(self, name, evaluations, nontrivial_keys, rule, samples, violations=(), extra=None):
        self.evaluations += evaluations
        for k in nontrivial_keys:
            self.nontrivial.add((name, k))
        self.rules.append("%s: %s" % (name, rule))
        s = dict(enumeration=name, evaluations=evaluations, distinct_nontrivial=len(set(nontrivial_keys)))
        if extra:
            s.update(extra)
        self.scenarios.append(s)
        for x in samples[:3]:
            if len(self.samples) < 12:
                self.samples.append({"enumeration": name, "case": jsonable(x)})
        for v in violations:
            v = dict(v)
            v["scenario"] = name
            self.violations.append(v)
        self.log("  %s: evaluations=%d distinct_nontrivial=%d viol=%d" % (
            name, evaluations, len(set(nontrivial_keys)), len(list(violations))))

    def finish(self):
        known = load_known()
        kf = [k for k in known.get("findings", []) if k["property"] == self.prop]
        new, listed = [], {}
        for v in self.violations:
            hit = None
            for k in kf:
                if k["oracle"] == v["oracle"] and k["sig"] == v.get("sig"):
                    hit = k
                    break
            if hit:
                listed.setdefault(hit["id"], (hit, v))
            else:
                new.append(v)
        os.makedirs(EVID, exist_ok=True)
        os.makedirs(REPLAYS, exist_ok=True)
        lines = []
        for kid, (k, v) in sorted(listed.items()):
            lines.append("KNOWN-FINDING: property=%s %s [%s]" % (self.prop, k["what"], kid))
        seen_sig = set()
        for v in new:
            sig = (v["oracle"], v.get("sig"))
            if sig in seen_sig:
                continue
            seen_sig.add(sig)
            body = dict(property=self.prop, tier=self.tier, seed=self.seed,
                        scenario=v.get("scenario"), oracle=v["oracle"], sig=v.get("sig"),
                        message=v.get("msg"), events=jsonable(v.get("history")),
                        case=jsonable(v.get("case")), replay_info=v.get("replay_info"))
            dg = hashlib.blake2b(json.dumps(body, sort_keys=True).encode(), digest_size=6).hexdigest()
            path = os.path.join(REPLAYS, "%s-%s.json" % (self.prop, dg))
            with open(path, "w") as f:
                json.dump(body, f, indent=1, sort_keys=True)
            lines.append("VIOLATION property=%s replay=%s" % (self.prop, path))
            lines.append("  oracle=%s sig=%s: %s" % (v["oracle"], v.get("sig"), v.get("msg")))
        wall = time.time() - self.t0
        cov = dict(exhaustive=not self.caps, caps_hit=self.caps, scenarios=self.scenarios,
                   samples=self.samples or [{"note": "no sample"}])
        if self.transitions:
            cov.update(states=self.states, transitions=self.transitions,
                       traces_validated_against_impl=self.replays,
                       determinism_double_replays=self.rechecks,
                       terminal_states=self.executions,
                       distinct_outcomes=self.outcomes,
                       explanation=("every transition is one call into the real implementation; "
                                    "traces_validated_against_impl counts the histories replayed on "
                                    "fresh real objects (each replay re-checks the recorded state key)"))
        if self.evaluations:
            cov.update(evaluations=self.evaluations, distinct_nontrivial=len(self.nontrivial),
                       rule=" | ".join(self.rules))
        elif self.transitions:
            cov.update(evaluations=self.transitions, distinct_nontrivial=self.states,
                       rule="transitions executed on the real objects / distinct canonical states")
        cov.update(self.extra)
        ev = dict(property_id=self.prop, tier=self.tier, seed=self.seed, level=self.level,
                  coverage=cov, assumptions=self.assumptions, wall_s=round(wall, 2),
                  violations=len(seen_sig),
                  known_findings=[k for k in sorted(listed)])
        # a partial run (--only <scenario>) is a development aid: it must not replace the evidence of the registered command
        evname = "%s.json" % self.prop if not getattr(self, "only", None) else ".partial-%s.json" % self.prop
        with open(os.path.join(EVID, evname), "w") as f:
            json.dump(jsonable(ev), f, indent=1, sort_keys=True)
        for ln in lines:
            print(ln)
        print("%s %s tier=%s seed=%d states=%d transitions=%d evaluations=%d wall=%.1fs -> %s" % (
            self.prop, "FAIL" if seen_sig else "ok", self.tier, self.seed, self.states,
            self.transitions, self.evaluations, wall, "exit 1" if seen_sig else "exit 0"), flush=True)
        return 1 if seen_sig else 0
