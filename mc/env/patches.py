"""Harness-side seams, installed once per process.  Nothing here edits the
repository: module attributes of third-party seams (os.urandom as seen from a
module, nacl.utils as seen from wormhole._key, SPAKE2_Symmetric,
ClientService, the mailbox server's clock / id generators) are replaced by
objects that dispatch to the *current world* (CTX.world).
"""
import os
import sys

from twisted.python import log as txlog

from ..core.entropy import Stream


class Ctx:
    world = None     # the world currently executing an event
    client = None    # tag of the client on whose behalf library code runs


CTX = Ctx()
SEED = int(os.environ.get("VERIF_SEED", "0") or 0)

_streams = {}


def stream(tag):
    w = CTX.world
    table = w._streams if w is not None else _streams
    s = table.get(tag)
    if s is None:
        s = table[tag] = Stream(getattr(w, "seed", SEED), tag)
    return s


class OsProxy:
    """Stands in for the `os` module inside one library module."""

    def __init__(self, purpose, const=None):
        self._purpose = purpose
        self._const = const

    def urandom(self, n):
        if self._const is not None:
            return (self._const * n)[:n]
        return stream("%s/%s" % (self._purpose, CTX.client)).read(n)

    def __getattr__(self, name):
        return getattr(os, name)


class NaclUtils:
    def random(self, size=32):
        return stream("nonce/%s" % CTX.client).read(size)

    def __getattr__(self, name):
        from nacl import utils
        return getattr(utils, name)


# ---------------------------------------------------------------- SPAKE2 memo
_spake_start = {}
_spake_finish = {}


def make_memo_spake():
    from spake2 import SPAKE2_Symmetric

    class MemoSPAKE2:
        def __init__(self, password, idSymmetric=b"", **kw):
            self._pw = bytes(password)
            self._ids = bytes(idSymmetric)
            self._ent = "%d/spake/%s" % (getattr(CTX.world, "seed", SEED), CTX.client)
            self._finished = False

        def start(self):
            k = (self._pw, self._ids, self._ent)
            if k not in _spake_start:
                st = Stream(0, self._ent)
                real = SPAKE2_Symmetric(self._pw, idSymmetric=self._ids, entropy_f=st.read)
                msg = real.start()
                _spake_start[k] = (msg, real.serialize())
            self._k = k
            return _spake_start[k][0]

        def finish(self, inbound):
            from spake2.spake2 import OnlyCallFinishOnce
            if self._finished:
                raise OnlyCallFinishOnce("finish() can only be called once")
            self._finished = True
            k = (self._k, bytes(inbound))
            if k not in _spake_finish:
                real = SPAKE2_Symmetric.from_serialized(_spake_start[self._k][1])
                try:
                    _spake_finish[k] = (True, real.finish(inbound))
                except Exception as e:  # memoise failures too (pure function)
                    _spake_finish[k] = (False, e)
            ok, v = _spake_finish[k]
            if ok:
                return v
            raise v

    return MemoSPAKE2


import collections.abc


class OSet(collections.abc.MutableSet):
    """insertion-ordered set: stands in for the builtin `set` inside library modules whose
    behaviour depends on iteration order over id-hashed objects (Deferreds, protocols); the
    explorer then sees one deterministic order (insertion order) instead of an address-dependent one"""

    def __init__(self, it=()):
        self._d = {}
        for x in it:
            self._d[x] = None

    def __contains__(self, x):
        return x in self._d

    def __iter__(self):
        # the owning world may ask for another iteration order (set_order = "rev"): library code that iterates a set of
        # id-hashed objects may see them in any order, scenarios explore insertion order and its reverse
        # like the builtin set it stands in for, iteration is over the live container: adding or removing an element while
        # iterating raises RuntimeError("... changed size during iteration") - library code that relies on a copy must make one
        if getattr(CTX.world, "set_order", "ins") == "rev":
            return reversed(self._d)
        return iter(self._d)

    def __len__(self):
        return len(self._d)

    def add(self, x):
        self._d[x] = None

    def discard(self, x):
        self._d.pop(x, None)

    def remove(self, x):
        del self._d[x]

    def clear(self):
        self._d.clear()

    def union(self, other):
        return OSet(list(self) + list(other))

    def __repr__(self):
        return "OSet(%r)" % (list(self._d),)


class OEmptyableSet(OSet):
    """insertion-ordered stand-in for wormhole.observer.EmptyableSet (same API)"""

    def __init__(self, *args, **kwargs):
        self._eq = kwargs.pop("_eventual_queue")
        OSet.__init__(self, *args)
        self._observer = None

    def when_next_empty(self):
        from wormhole.observer import OneShotObserver
        if not self._observer:
            self._observer = OneShotObserver(self._eq)
        return self._observer.when_fired()

    def discard(self, o):
        OSet.discard(self, o)
        if self._observer and not len(self):
            self._observer.fire(None)
            self._observer = None


_logged = []


def _log_observer(ev):
    lvl = getattr(ev.get("log_level"), "name", "")
    if ev.get("isError") or lvl in ("error", "critical"):
        if str(ev.get("log_format") or ev.get("why") or "").startswith("Unhandled error in Deferred") or (
                ev.get("log_namespace") == "twisted.internet.defer" and "debugInfo" in ev):
            # emitted from Deferred.__del__: when it appears depends on reference counting / the cycle collector,
            # not on the schedule, so it can neither be part of a state key nor feed an oracle
            return
        w = CTX.world
        f = ev.get("failure") or ev.get("log_failure")
        if f is not None:
            rec = (type(f.value).__name__, str(f.value)[:160], _where(f))
        else:
            rec = ("log.err", str(ev.get("message"))[:160], "")
        if w is not None:
            w.logged_error(rec)
        else:
            _logged.append(rec)


def _where(f):
    try:
        for fr in reversed(f.frames or []):
            if "/wormhole/" in fr[1] and "site-packages" not in fr[1]:
                return "%s:%s" % (os.path.basename(fr[1]), fr[0])
        fr = f.frames[-1] if f.frames else None
        if fr:
            return "%s:%s" % (os.path.basename(fr[1]), fr[0])
    except Exception:
        pass
    return ""


# exception types that mean "the implementation failed internally" however they are handled afterwards
INTERNAL_TYPES = ("NoTransition", "AssertionError", "AttributeError", "TypeError", "KeyError", "IndexError", "NameError",
                  "UnboundLocalError", "AlreadyCalledError", "AlreadyCalled", "AlreadyCancelled", "ZeroDivisionError")


def _install_failure_tap():
    """Exceptions raised inside Deferred callbacks become Failures that nobody may ever look at; Twisted reports them from
    Deferred.__del__, i.e. at a moment decided by the garbage collector.  The tap records them at the moment the Failure is
    created instead (deterministic: inside the event that raised), in world.swallowed."""
    from twisted.python.failure import Failure
    orig = Failure.__init__

    def __init__(self, exc_value=None, exc_type=None, exc_tb=None, captureVars=False):
        orig(self, exc_value, exc_type, exc_tb, captureVars)
        w = CTX.world
        if w is not None and type(self.value).__name__ in INTERNAL_TYPES:
            rec = (type(self.value).__name__, str(self.value)[:120], _where(self))
            lst = w.__dict__.setdefault("swallowed", [])
            if rec not in lst:
                lst.append(rec)
    Failure.__init__ = __init__


_installed = False


def install():
    global _installed
    if _installed:
        return
    _installed = True
    import wormhole.wormhole as ww
    import wormhole._rendezvous as rz
    import wormhole._key as wk
    import wormhole._wordlist as wl
    import wormhole.transit as tr
    import wormhole._dilation.manager as dm
    ww.os = OsProxy("side")
    rz.os = OsProxy("msgid", const=b"\x00")
    wl.os = OsProxy("words")
    tr.os = OsProxy("transit")
    dm.os = OsProxy("dilside")
    wk.utils = NaclUtils()
    wk.SPAKE2_Symmetric = make_memo_spake()
    _install_failure_tap()
    from twisted.logger import globalLogBeginner
    globalLogBeginner.beginLoggingTo([_log_observer], redirectStandardIO=False, discardBuffer=True)
