"""W3: two real dilation Managers (with their Connectors, DilatedConnectionProtocols,
Inbound/Outbound, SubChannels, TrafficTimer) on the simulated network; the
mailbox is two FIFO queues of dilate-N plaintexts; Noise is the stand-in."""
import json

from twisted.internet import protocol, error, interfaces
from twisted.internet.task import Cooperator
from zope.interface import implementer

from . import patches
from .patches import CTX, stream
from .simnet import Net, SimReactor, establish, refuse, deliver, close_end, can_close
from ..core import canon

patches.install()

import noise.connection as _noisec  # noqa: E402  (the stand-in)
from wormhole import _interfaces, ipaddrs  # noqa: E402
from wormhole.eventual import EventualQueue  # noqa: E402
from wormhole._dilation import manager as dmanager, connector as dconnector, connection as dconnection  # noqa: E402
from wormhole._dilation.roles import LEADER, FOLLOWER  # noqa: E402
from wormhole._dilation.subchannel import SubChannel  # noqa: E402
from twisted.internet.interfaces import IHalfCloseableProtocol  # noqa: E402

_noisec.entropy = lambda n: stream("noise/%s" % CTX.client).read(n)
dconnector.set = patches.OSet      # Connector keeps sets of Deferreds / protocols / ports: deterministic iteration
dconnector.EmptyableSet = patches.OEmptyableSet
dmanager.make_side = lambda: SIDES[int(CTX.client[1:]) % 2] if (CTX.client or "x")[0] in "dc" else SIDES[0]   # randomness seam
HOSTS = ["10.1.0.1", "10.1.0.2"]
SIDES = ["ff" * 8, "00" * 8]       # side 0 is the Leader (higher side string)
KEY = b"\x33" * 32


@implementer(_interfaces.ISend)
class MboxSend:
    def __init__(self, world, i):
        self.world, self.i = world, i

    def send(self, phase, plaintext):
        self.world.mbox[self.i].append((phase, plaintext))


@implementer(_interfaces.ITerminator)
class FakeTerminator:
    def __init__(self):
        self.stopped = 0

    def stoppedD(self):
        self.stopped += 1


class Rec(protocol.Protocol):
    """application protocol on a subchannel: records every callback"""

    def __init__(self, world, side, tag, half=False):
        self.world, self.side, self.tag = world, side, tag
        self.log = []          # ("made",) ("data", bytes) ("lost",) ("rlost",) ("wlost",)
        self.write_errors = []
        self.auto = None

    def connectionMade(self):
        self.log.append(("made", getattr(self.transport.getPeer(), "subprotocol", None)))

    def dataReceived(self, data):
        self.log.append(("data", bytes(data)))

    def connectionLost(self, reason=None):
        self.log.append(("lost",))


@implementer(IHalfCloseableProtocol)
class HalfRec(Rec):
    def readConnectionLost(self):
        self.log.append(("rlost",))

    def writeConnectionLost(self):
        self.log.append(("wlost",))


class RecFactory(protocol.Factory):
    def __init__(self, world, side, name, store, half=False):
        self.world, self.side, self.name, self.store, self.half = world, side, name, store, half

    def buildProtocol(self, addr):
        p = (HalfRec if self.half else Rec)(self.world, self.side, self.name)
        p.built_for = getattr(addr, "subprotocol", None)
        self.store.append(p)
        return p


class Side:
    def __init__(self, world, i, cfg):
        self.i = i
        self.reactor = SimReactor(world.net, HOSTS[i])
        self.eq = EventualQueue(self.reactor)
        self.coop = Cooperator(scheduler=self.eq.eventually)
        self.send = MboxSend(world, i)
        self.started = False
        self.chans = []        # protocols created by our connect() calls (in call order)
        self.accepted = []     # protocols built by our listeners (in build order)
        self.connect_results = []   # per connect() call: None | "ok" | exception name
        self.listen_results = []
        self.api_errors = []
        self.threads = [list(t) for t in cfg.get("threads", {}).get(i, [])]
        self.pc = [0] * len(self.threads)
        self.producers = []


class DilationWorld:
    KINDS = ("mbox", "start", "turn", "conn_ok", "conn_fail", "deliver", "close", "lose", "timer", "app")

    def __init__(self, cfg, seed=0):
        self.cfg = cfg
        self.seed = seed
        self._streams = {}
        self.viol = []
        self.errors = []
        self.logged = []
        self.now = 0.0
        self.set_order = cfg.get("set_order", "ins")
        CTX.world = self
        self.net = Net()
        self.mbox = [[], []]
        self.mbox_delivered = [0, 0]
        self.sides = [Side(self, i, cfg) for i in (0, 1)]
        self.explored = set(cfg.get("explored", ("mbox", "conn_ok", "deliver", "close", "lose", "app", "start")))
        self.lose_left = cfg.get("lose", 0)
        self.monitors = list(cfg.get("monitors", ()))
        self.final_monitors = list(cfg.get("final_monitors", ()))
        self._find = ipaddrs.find_addresses
        for s in self.sides:
            CTX.client = "d%d" % s.i
            # through the real Dilator, as Boss does it
            s.dilator = dmanager.Dilator(s.reactor, s.eq, s.coop, ["ged"])
            s.terminator = FakeTerminator()
            s.dilator.wire(s.send, s.terminator)
            s.api = s.dilator.dilate(cfg.get("relay"), no_listen=bool(cfg.get("no_listen", {}).get(s.i, False)),
                                     ping_interval=float(cfg.get("ping_interval", 30.0)),
                                     expected_subprotocols=cfg.get("expected_subprotocols", {}).get(s.i))
            s.manager = s.dilator._manager
            s.dilator.got_key(KEY)
        if not cfg.get("start_explored"):
            for s in self.sides:
                self._start(s)
        hook = cfg.get("post_init")
        if hook:
            hook(self)
        self._closure()
        for ev in cfg.get("prefix", ()):
            self.apply(ev)

    def logged_error(self, rec):
        # log.err() calls: recorded separately from exceptions that escape an entry point
        self.logged.append(rec)

    def _start(self, s):
        CTX.client = "d%d" % s.i
        s.started = True
        with _addresses([HOSTS[s.i]]):
            s.dilator.got_wormhole_versions({"can-dilate": ["ged"]})

    # ------------------------------------------------------------ event menu
    def _all_enabled(self):
        evs = []
        for s in self.sides:
            if s.reactor.due():
                evs.append(("turn", s.i))
        for i in (0, 1):
            if self.mbox_delivered[i] < len(self.mbox[i]) and self.sides[1 - i].started:
                evs.append(("mbox", i))
        for s in self.sides:
            if not s.started:
                evs.append(("start", s.i))
        for link in self.net.links:
            for side in (0, 1):
                end = link.ends[side]
                if not end.transport.closed and not end.transport.disconnecting and link.pending(side) > 0 and not end.transport.reading_paused:
                    for n in self._chunks(link, side):
                        evs.append(("deliver", link.idx, side, n))
        for c in self.net.attempts:
            if c.state == "connecting":
                if self.net.listener_for(c.host, c.port) is not None:
                    evs.append(("conn_ok", c.idx))
                if self.cfg.get("conn_fail") or self.net.listener_for(c.host, c.port) is None:
                    evs.append(("conn_fail", c.idx))
        apps = []
        for s in self.sides:
            for ti, t in enumerate(s.threads):
                if s.pc[ti] < len(t) and self._op_enabled(s, t[s.pc[ti]]):
                    apps.append(("app", s.i, ti))
        if self.cfg.get("app_first"):
            # default schedule: the application issues everything it can before the network moves
            k = len([e for e in evs if e[0] == "turn"])
            evs[k:k] = apps
        else:
            evs.extend(apps)
        for link in self.net.links:
            for side in (0, 1):
                if can_close(link, side):
                    evs.append(("close", link.idx, side))
        extra = self.cfg.get("extra_events")
        if extra:
            evs.extend(extra(self))
        if any(s.reactor.calls for s in self.sides) and not any(s.reactor.due() for s in self.sides):
            if not (self.cfg.get("lazy_timer", True) and [e for e in evs if e[0] != "app" or self.cfg.get("app_blocks_time", True)]):
                if not self.cfg.get("no_timer"):
                    evs.append(("timer",))
        if self.lose_left > 0:
            for link in self.net.links:
                if self._losable(link):
                    if self.cfg.get("lose_both"):
                        if not link.broken and not all(e.transport.closed for e in link.ends):
                            evs.append(("lose", link.idx, 2))
                        continue
                    for side in (0, 1):
                        if not link.ends[side].transport.closed and not link.broken:
                            evs.append(("lose", link.idx, side))
        return evs

    def _losable(self, link):
        f = self.cfg.get("losable")
        if f:
            return f(self, link)
        return True

    def _chunks(self, link, side):
        n = link.pending(side)
        mode = self.cfg.get("chunking", "whole")
        if mode == "whole":
            return [n]
        # "frames": cut at the end of the first complete wire unit (prologue line pair or length-prefixed frame)
        data = b"".join(link.queues[1 - side])
        cuts = set([n])
        i = data.find(b"\n\n")
        if data[:5] in (b"Magic", b"pleas"[:5]) and i >= 0:
            cuts.add(i + 2)
        elif len(data) >= 4 and not data.startswith(b"Magic"):
            ln = int.from_bytes(data[:4], "big")
            if 4 + ln < n:
                cuts.add(4 + ln)
        if mode == "frames+mid" and n > 1:
            cuts.add(max(1, min(cuts) // 2))
        if mode == "frames+edges" and n > 1:
            # a segment boundary one byte before the end of the first wire unit, and one byte into it
            unit = min(cuts)
            if unit > 1:
                cuts.add(unit - 1)
            cuts.add(1)
        # largest first: the default schedule delivers everything that is pending, finer cuts are deviations
        return sorted(cuts, reverse=True)

    def _op_enabled(self, s, op):
        g = self.cfg.get("op_guard")
        if g:
            r = g(self, s, op)
            if r is not None:
                return r
        k = op[0]
        if k in ("write", "close", "half_close", "reg_push", "reg_pull", "unreg", "pause", "resume", "stop"):
            return len(s.chans) > op[1] and s.chans[op[1]].transport is not None
        if k in ("swrite", "sclose", "spause", "sresume", "sstop"):
            return len(s.accepted) > op[1] and s.accepted[op[1]].transport is not None
        return True

    def _is_eager(self, ev):
        return ev[0] not in self.explored

    def enabled(self):
        return [e for e in self._all_enabled() if not self._is_eager(e)]

    def _closure(self):
        n = 0
        while True:
            evs = [e for e in self._all_enabled() if self._is_eager(e) and e[0] not in ("lose", "conn_fail", "timer")]
            if not evs:
                break
            self._do(evs[0])
            n += 1
            if n > 100000:
                raise RuntimeError("closure does not terminate")

    def apply(self, ev):
        self._do(tuple(ev))
        self._closure()
        for m in self.monitors:
            m(self)

    # ------------------------------------------------------------ execution
    def _guard(self, who, f, *a):
        try:
            return f(*a)
        except Exception as e:
            import traceback
            tb = traceback.extract_tb(e.__traceback__)
            site = ""
            for fr in reversed(tb):
                if "/wormhole/" in fr.filename and "site-packages" not in fr.filename:
                    site = "%s:%s" % (fr.filename.rsplit("/", 1)[-1], fr.name)
                    break
            self.errors.append((type(e).__name__, str(e)[:100], site or who))
            return e

    def _do(self, ev):
        CTX.world = self
        k = ev[0]
        if k == "turn":
            s = self.sides[ev[1]]
            CTX.client = "d%d" % s.i
            with _addresses([HOSTS[s.i]]):
                self._guard("turn", s.reactor.fire_one)
        elif k == "mbox":
            i = ev[1]
            phase, plaintext = self.mbox[i][self.mbox_delivered[i]]
            self.mbox_delivered[i] += 1
            r = self.sides[1 - i]
            CTX.client = "d%d" % r.i
            with _addresses([HOSTS[r.i]]):
                self._guard("mbox", r.dilator.received_dilate, plaintext)
        elif k == "start":
            self._start(self.sides[ev[1]])
        elif k == "deliver":
            link = self.net.links[ev[1]]
            CTX.client = self._owner_tag(link, ev[2])
            r = self._guard("dataReceived", deliver, link, ev[2], ev[3])
            if isinstance(r, Exception):
                # Twisted: an exception out of dataReceived loses the connection
                in_use = any(s.manager._connection is not None and s.manager._connection.transport.link is link for s in self.sides)
                self.__dict__.setdefault("rx_raised", []).append((link.idx, ev[2], link.broken, type(r).__name__, str(r)[:80], in_use))
                close_end(link, ev[2], error.ConnectionLost())
        elif k == "conn_ok":
            c = self.net.attempts[ev[1]]
            CTX.client = "d%d" % HOSTS.index(c.reactor.name)
            self._guard("connect", establish, self.net, c)
        elif k == "conn_fail":
            self._guard("connect", refuse, self.net, self.net.attempts[ev[1]])
        elif k == "close":
            link = self.net.links[ev[1]]
            CTX.client = self._owner_tag(link, ev[2])
            self._guard("connectionLost", close_end, link, ev[2])
        elif k == "lose":
            self.lose_left -= 1
            link = self.net.links[ev[1]]
            link.broken = True
            for side in ((0, 1) if ev[2] == 2 else (ev[2],)):
                if not link.ends[side].transport.closed:
                    CTX.client = self._owner_tag(link, side)
                    self._guard("connectionLost", close_end, link, side, error.ConnectionLost())
        elif k == "timer":
            t = min(s.reactor.calls[0].getTime() - s.reactor.seconds() for s in self.sides if s.reactor.calls)
            self.now += t
            for s in self.sides:
                s.reactor.rightNow += t
            for s in self.sides:
                if s.reactor.due():
                    CTX.client = "d%d" % s.i
                    with _addresses([HOSTS[s.i]]):
                        self._guard("timer", s.reactor.fire_one)
                    break
        elif k == "app":
            s = self.sides[ev[1]]
            ti = ev[2]
            op = s.threads[ti][s.pc[ti]]
            s.pc[ti] += 1
            CTX.client = "d%d" % s.i
            self._app(s, op)
        else:
            h = self.cfg.get("extra_apply")
            if not h or not h(self, ev):
                raise ValueError(ev)

    def _owner_tag(self, link, side):
        host = link.ends[side].owner
        return "d%d" % HOSTS.index(host) if host in HOSTS else "x"

    def _app(self, s, op):
        k = op[0]
        try:
            if k == "open":
                idx = len(s.connect_results)
                s.connect_results.append(None)
                store = []
                f = RecFactory(self, s.i, op[1], store, half=(len(op) > 2 and op[2] == "half"))
                d = s.api.connector_for(op[1]).connect(f)

                def ok(p, idx=idx):
                    s.connect_results[idx] = "ok"
                    s.chans.append(p)

                def bad(fl, idx=idx):
                    s.connect_results[idx] = type(fl.value).__name__
                d.addCallbacks(ok, bad)
            elif k == "listen":
                idx = len(s.listen_results)
                s.listen_results.append(None)
                f = RecFactory(self, s.i, op[1], s.accepted, half=(len(op) > 2 and op[2] == "half"))
                d = s.api.listener_for(op[1]).listen(f)
                d.addCallbacks(lambda p, idx=idx: s.listen_results.__setitem__(idx, "ok"),
                               lambda fl, idx=idx: s.listen_results.__setitem__(idx, type(fl.value).__name__))
            elif k == "write":
                s.chans[op[1]].transport.write(op[2])
            elif k == "swrite":
                s.accepted[op[1]].transport.write(op[2])
            elif k == "close":
                s.chans[op[1]].transport.loseConnection()
            elif k == "sclose":
                s.accepted[op[1]].transport.loseConnection()
            elif k == "half_close":
                s.chans[op[1]].transport.loseWriteConnection()
            elif k == "stop_dilation":
                s.dilator.stop()
            else:
                h = self.cfg.get("app_hook")
                if not h or not h(self, s, op):
                    raise ValueError(op)
        except Exception as e:
            s.api_errors.append((k, op[1] if len(op) > 1 and isinstance(op[1], (int, str)) else None, type(e).__name__))

    # ------------------------------------------------------------ state
    def protos(self, i):
        """DilatedConnectionProtocol objects owned by side i with their (link, side)"""
        out = []
        for link in self.net.links:
            for end in link.ends:
                p = getattr(end.protocol, "_wrappedProtocol", end.protocol)
                if isinstance(p, dconnection.DilatedConnectionProtocol) and end.owner == HOSTS[i]:
                    out.append((link, end.side, p))
        return out

    def image(self):
        im = canon.Imager(opaque_types=(Net, SimReactor, DilationWorld, _noisec.NoiseConnection, MboxSend, Cooperator, FakeTerminator),
                          deny=canon.DENY_ATTRS | {"_status", "_latest_status", "_description", "_timing", "factory", "_coopTask"})
        links = []
        for link in self.net.links:
            ends = []
            for end in link.ends:
                t = end.transport
                ends.append((t.closed, t.disconnecting, t.reading_paused, t.producer is not None, end.owner))
            links.append((tuple(b"".join(q) for q in link.queues), link.broken, tuple(ends)))
        atts = tuple((c.reactor.name, c.host, c.port, c.state) for c in self.net.attempts)
        lst = tuple(sorted((h, p, port.listening) for (h, p), port in self.net.listeners.items()))
        sides = []
        for s in self.sides:
            timers = tuple((round(dc.getTime() - s.reactor.seconds(), 6), getattr(dc.func, "__qualname__", "?")) for dc in s.reactor.calls)
            noise = []
            for (l, sd, p) in self.protos(s.i):
                nz = p._noise
                noise.append((l.idx, nz.handshake_finished, getattr(getattr(nz, "_send", None), "n", None),
                              getattr(getattr(nz, "_recv", None), "n", None)))
            sides.append((s.started, tuple(s.pc), timers, tuple(noise), im.img(s.manager),
                          im.img([p.log for p in s.chans]), im.img([p.log for p in s.accepted]),
                          tuple(s.connect_results), tuple(s.listen_results), tuple(s.api_errors),
                          im.img([(type(x).__name__, vars(x)) for x in s.producers])))
        mb = tuple((tuple(self.mbox[i][self.mbox_delivered[i]:]), self.mbox_delivered[i]) for i in (0, 1))
        ex = self.cfg.get("extra_state")
        return (tuple(links), atts, lst, tuple(sides), mb, self.lose_left, round(self.now, 6), tuple(self.errors), tuple(self.logged),
                im.img(ex(self)) if ex else None)

    def key(self):
        return canon.key_of((self.image(), tuple(self.enabled())))

    def violations(self):
        return list(self.viol)

    def final_violations(self):
        out = []
        for m in self.final_monitors:
            out.extend(m(self) or [])
        return out

    def flag(self, oracle, sig, msg):
        for v in self.viol:
            if v["oracle"] == oracle and v["sig"] == sig:
                return
        self.viol.append(dict(oracle=oracle, sig=sig, msg=msg))

    def mstate(self, i):
        return canon.machine_state(self.sides[i].manager, dmanager.Manager.m)

    def outcome(self):
        return tuple((self.mstate(i), tuple(tuple(p.log) for p in self.sides[i].chans),
                      tuple(tuple(p.log) for p in self.sides[i].accepted), tuple(self.sides[i].connect_results)) for i in (0, 1)) + (
            tuple(self.errors),)


class _addresses:
    """ipaddrs.find_addresses answers with the current side's address while its code runs"""

    def __init__(self, addrs):
        self.addrs = addrs

    def __enter__(self):
        self.saved = ipaddrs.find_addresses
        ipaddrs.find_addresses = lambda: list(self.addrs)

    def __exit__(self, *a):
        ipaddrs.find_addresses = self.saved


def run_default(w, limit=100000, avoid=("lose", "conn_fail", "timer")):
    n = 0
    while n < limit:
        en = [e for e in w.enabled() if e[0] not in avoid]
        if not en:
            break
        w.apply(en[0])
        n += 1
    return n


def connected_prefix(cfg):
    """the default-schedule event list that brings both Managers to CONNECTED (used as a setup prefix)"""
    c = dict(cfg)
    c.pop("prefix", None)
    c["threads"] = {}
    c["lose"] = 0
    w = DilationWorld(c)
    hist = []
    for _ in range(10000):
        if w.mstate(0) == "CONNECTED" and w.mstate(1) == "CONNECTED":
            # let the loser connections finish closing
            en = [e for e in w.enabled() if e[0] in ("close", "deliver", "turn")]
            if not en:
                break
        else:
            en = [e for e in w.enabled() if e[0] not in ("lose", "conn_fail", "timer", "app")]
        if not en:
            break
        hist.append(en[0])
        w.apply(en[0])
    assert w.mstate(0) == "CONNECTED" and w.mstate(1) == "CONNECTED", (w.mstate(0), w.mstate(1), w.errors)
    return hist
