"""W1: real wormhole clients (Boss + all machines) against the real
wormhole_mailbox_server logic, with every delivery / API call / fault an
explicit event.  See DESIGN.md section 3.1/3.2."""
import json
from collections import deque

from twisted.internet import defer
from twisted.internet.task import Clock
from twisted.internet.error import ConnectError
from twisted.python.failure import Failure

from . import patches
from .patches import CTX
from ..core import canon

patches.install()

import wormhole  # noqa: E402
import wormhole._rendezvous as rz  # noqa: E402
from wormhole import errors as werrors  # noqa: E402
from wormhole_mailbox_server import server as mbserver  # noqa: E402
from wormhole_mailbox_server import server_websocket as mbws  # noqa: E402
from wormhole_mailbox_server.database import create_channel_db  # noqa: E402

URL = "ws://mailbox.invalid:4000/v1"


# --------------------------------------------------------------- server seams
class _SrvClock:
    def time(self):
        w = CTX.world
        w.srv_time += 1.0
        return w.srv_time


class _SrvRandom:
    def choice(self, seq):
        w = CTX.world
        seq = sorted(seq, key=lambda s: (len(s), s))
        forced = getattr(w, "force_nameplate", None)
        if forced is not None:
            return forced
        return seq[0]

    def randrange(self, a, b):
        return a


def _gen_mailbox_id():
    w = CTX.world
    w.srv_mbox_ctr += 1
    return "mbox%d" % w.srv_mbox_ctr


mbws.time = _SrvClock()
mbserver.random = _SrvRandom()
mbserver.generate_mailbox_id = _gen_mailbox_id

# The reference server refuses a third side ("crowded").  The documented protocol does not require that of a server, so a
# scenario may lift the limit (cfg crowd_limit=None): everything else is still the reference server's logic.
_orig_open_mailbox = mbserver.AppNamespace.open_mailbox
_orig_claim_nameplate = mbserver.AppNamespace.claim_nameplate


def _crowd_lifted():
    w = CTX.world
    return w is not None and "crowd_limit" in getattr(w, "cfg", {}) and w.cfg["crowd_limit"] is None


def _open_mailbox(self, mailbox_id, side, when):
    try:
        return _orig_open_mailbox(self, mailbox_id, side, when)
    except mbserver.CrowdedError:
        if not _crowd_lifted():
            raise
        return self._mailboxes[mailbox_id]


def _claim_nameplate(self, name, side, when):
    try:
        return _orig_claim_nameplate(self, name, side, when)
    except mbserver.CrowdedError:
        if not _crowd_lifted():
            raise
        row = self._db.execute("SELECT * FROM `nameplates` WHERE `app_id`=? AND `name`=?", (self._app_id, name)).fetchone()
        return row["mailbox_id"]


mbserver.AppNamespace.open_mailbox = _open_mailbox
mbserver.AppNamespace.claim_nameplate = _claim_nameplate


JUNK_RESPONSES = ({"type": "nameplates"}, {"type": "claimed"}, {"type": "message", "side": "x"}, {"type": "allocated"})


class _FakeFactory:
    def __init__(self, server):
        self._server = server
        self.reactor = None


# ----------------------------------------------------- client-side connection
class FakeWS:
    """What RendezvousConnector sees as its WebSocket protocol."""

    def __init__(self, conn):
        self._conn = conn

    def sendMessage(self, payload, isBinary=False):
        if getattr(self._conn, "closing", False):
            # Autobahn: the closing handshake has begun, the protocol is no longer OPEN
            from autobahn.exception import Disconnected
            raise Disconnected("Attempt to send on a closed protocol")
        self._conn.up.append(payload)
        self._conn.world._ghost_tx(self._conn.ci, payload)


class FakeClientService:
    """Harness stand-in for twisted.application.internet.ClientService."""

    def __init__(self, endpoint, factory, **kw):
        self.factory = factory
        self.running = False
        self.stopped = False
        self.when_connected = []
        self.stop_d = None
        w = CTX.world
        w._register_service(self)

    def startService(self):
        self.running = True

    def whenConnected(self, failAfterFailures=None):
        d = defer.Deferred()
        self.when_connected.append(d)
        return d

    def stopService(self):
        self.running = False
        self.stopped = True
        return CTX.world._service_stop(self)


rz.internet = type("internet", (), {"ClientService": FakeClientService})


class Conn:
    """One WebSocket connection between a client and the server."""

    def __init__(self, world, ci, gen):
        self.ci = ci
        self.gen = gen
        self.up = deque()      # client -> server commands (bytes)
        self.down = deque()    # server -> client responses (dict)
        self.open = True
        self.stopping = False
        self.ws = FakeWS(self)
        sp = mbws.WebSocketServer()
        sp.factory = _FakeFactory(world.server)
        sp._peer_addr_port = ("ipv4", "127.0.0.1", 40000 + ci)
        sp.sendMessage = self._server_send
        self.sp = sp
        self.world = world

    def _server_send(self, payload, isBinary=False):
        msg = json.loads(payload.decode("utf-8"))
        if msg["type"] == "ack" and not self.world.cfg.get("acks"):
            return
        msg.pop("server_tx", None)
        msg.pop("server_rx", None)
        if msg["type"] == "welcome":
            msg["welcome"].update(self.world.cfg.get("welcome", {}))
            if self.gen >= 2:
                # (welcome_later) what the server says at the start of a *re*connection, e.g. an operator who retired it meanwhile
                msg["welcome"].update(self.world.cfg.get("welcome_later", {}))
        self.down.append(msg)


# ------------------------------------------------------------- application
class App:
    """The application on top of one wormhole: records everything it is told."""

    def __init__(self, world, ci, ccfg):
        self.ci = ci
        self.mode = ccfg.get("mode", "deferred")
        self.auto_get = ccfg.get("auto_get", True)
        self.obs = []            # application-visible events in order
        self.sent = []           # plaintexts passed to send_message
        self.api_errors = []     # exceptions raised by API calls
        self.closed = 0
        self.after_closed = []   # events delivered after the closed notification
        self.helper = None
        self.dilated = None
        self.sub_results = []
        self.close_calls = 0
        self.extra = []          # results of explicit get_* / derive_key steps

    # event recording
    def ev(self, kind, val=None):
        rec = (kind, val)
        if self.closed and kind not in ("closed", "closed-again"):
            self.after_closed.append(rec)
        self.obs.append(rec)
        if kind == "closed":
            self.closed += 1

    # delegate API
    def wormhole_got_welcome(self, welcome):
        self.ev("welcome", None)

    def wormhole_got_code(self, code):
        self.ev("code", code)

    def wormhole_got_unverified_key(self, key):
        self.ev("key", bytes(key))

    def wormhole_got_verifier(self, verifier):
        self.ev("verifier", bytes(verifier))

    def wormhole_got_versions(self, versions):
        self.ev("versions", json.dumps(versions, sort_keys=True))

    def wormhole_got_message(self, data):
        self.ev("msg", bytes(data))

    def wormhole_closed(self, result):
        self.ev("closed", verdict(result))

    # deferred API
    def arm(self, w):
        def one(name, d, conv):
            d.addCallbacks(lambda v: self.ev(name, conv(v)),
                           lambda f: self.ev("err:" + name, type(f.value).__name__))
        one("welcome", w.get_welcome(), lambda v: None)
        one("code", w.get_code(), lambda v: v)
        one("key", w.get_unverified_key(), bytes)
        one("verifier", w.get_verifier(), bytes)
        one("versions", w.get_versions(), lambda v: json.dumps(v, sort_keys=True))
        self._arm_msg(w)

    def _arm_msg(self, w):
        d = w.get_message()

        def ok(v):
            self.ev("msg", bytes(v))
            self._arm_msg(w)
        d.addCallbacks(ok, lambda f: self.ev("err:msg", type(f.value).__name__))


def verdict(result):
    if isinstance(result, Failure):
        result = result.value
    if isinstance(result, BaseException):
        return type(result).__name__
    return result


PEER_HOSTS = ["10.2.0.1", "10.2.0.2", "10.2.0.3"]


class Client:
    def __init__(self, world, ci, ccfg):
        self.ci = ci
        self.cfg = ccfg
        if world.net is not None:
            from .simnet import SimReactor
            self.clock = SimReactor(world.net, PEER_HOSTS[ci])
        else:
            self.clock = Clock()
        self.app = App(world, ci, ccfg)
        self.svc = None
        self.conn = None
        self.gen = 0
        self.ever_connected = False
        self.drops_left = ccfg.get("drops", 0)
        self.threads = [list(t) for t in ccfg.get("threads", [])]
        self.pc = [0] * len(self.threads)
        self.w = None
        self.boss = None
        # ghost ledger for oracles (part of the canonical state)
        self.ghost = {"claimed_np": set(), "told_np": set(), "sent_open": set(), "srv_close": set(),
                      "srv_release": set(), "cause": None, "closed_checked": False}


class RawActor:
    """A third mailbox participant driven by a fixed script of raw commands
    (its responses are read only to learn the mailbox id)."""

    def __init__(self, world, ai, script):
        self.ai = ai
        self.script = list(script)
        self.pc = 0
        self.mailbox = None
        sp = mbws.WebSocketServer()
        sp.factory = _FakeFactory(world.server)
        sp._peer_addr_port = ("ipv4", "127.0.0.9", 50000 + ai)
        sp.sendMessage = self._rx
        self.sp = sp
        self.errors = 0
        sp.onOpen()

    def _rx(self, payload, isBinary=False):
        m = json.loads(payload.decode("utf-8"))
        if m["type"] == "claimed":
            self.mailbox = m["mailbox"]
        elif m["type"] == "error":
            self.errors += 1

    def step(self):
        cmd = dict(self.script[self.pc])
        self.pc += 1
        for k, v in list(cmd.items()):
            if v == "$mailbox":
                cmd[k] = self.mailbox or "mbox1"
        cmd.setdefault("id", "raw")
        self.sp.onMessage(json.dumps(cmd).encode("utf-8"), False)


DOCUMENTED_API_ERRORS = (werrors.WormholeError,)


class MailboxWorld:
    """cfg keys: clients=[{appid, mode, threads, drops, versions, dilation}],
    explored={kinds}, coarse={client indexes whose up/down run eagerly},
    welcome={...}, reorder=int, dup=int, acks=bool, initial_fail=bool"""

    KINDS = ("nconn_ok", "nconn_fail", "ndeliver", "nclose", "nlose", "ntimer", "down", "up", "api", "raw", "turn", "connect", "stopfin", "reorder", "dup", "srverr", "drop", "hsfail", "connfail", "junk", "wsclosing", "tcpconn", "negabort")

    def __init__(self, cfg, seed=0):
        self.cfg = cfg
        self.seed = seed
        self._streams = {}
        self.srv_time = 1000.0
        self.srv_mbox_ctr = 0
        self.server_errors = []   # exceptions raised by the reference server while handling a command
        self.errors = []          # logged errors (twisted log.err)
        self.escaped = []         # exceptions escaping ws_* / API entry points
        self.viol = []
        self.explored = set(cfg.get("explored", ("down", "up", "api", "connect", "drop")))
        self.coarse = set(cfg.get("coarse", ()))
        self.reorder_left = cfg.get("reorder", 0)
        self.dup_left = cfg.get("dup", 0)
        self.srverr_left = cfg.get("srverr", 0)
        self.hsfail_left = cfg.get("hsfail", 0)
        self.junk_left = cfg.get("junk", 0)
        self.monitors = list(cfg.get("monitors", ()))
        self.final_monitors = list(cfg.get("final_monitors", ()))
        self._pending_services = []
        self.net = None
        if cfg.get("net"):
            from .simnet import Net
            from wormhole import ipaddrs
            self.net = Net()
            ipaddrs.find_addresses = lambda: [PEER_HOSTS[int(CTX.client[1:])] if (CTX.client or "").startswith("c") else "127.0.0.1"]
        self.nlose_left = cfg.get("nlose", 0)
        self.ntimer_left = cfg.get("ntimers", 0)
        CTX.world = self
        CTX.client = "srv"
        db = create_channel_db(":memory:")
        self.db = db
        self.server = mbserver.make_server(db, **cfg.get("server_kw", {}))
        self.clients = []
        for ci, ccfg in enumerate(cfg["clients"]):
            c = Client(self, ci, ccfg)
            self.clients.append(c)
            CTX.client = "c%d" % ci
            kw = {}
            if c.app.mode == "delegate":
                kw["delegate"] = c.app
            if ccfg.get("dilation"):
                kw["dilation"] = True
            w = wormhole.create(ccfg.get("appid", "appid"), URL, c.clock,
                                versions=ccfg.get("versions", {}), **kw)
            c.w = w
            c.boss = w._boss
            c.svc = self._pending_services.pop()
            assert not self._pending_services
            if c.app.mode != "delegate" and c.app.auto_get:
                c.app.arm(w)
        CTX.client = "srv"
        self.raw = [RawActor(self, ai, sc) for ai, sc in enumerate(cfg.get("raw", ()))]
        self.cov = set()
        if cfg.get("trace_machines"):
            self._install_tracers()
        hook = cfg.get("post_init")
        if hook:
            hook(self)
        self._closure()

    def _install_tracers(self):
        for c in self.clients:
            b = c.boss
            names = {"B": b, "N": b._N, "M": b._M, "S": b._S, "O": b._O, "K": b._K, "SK": b._K._SK,
                     "R": b._R, "L": b._L, "A": b._A, "I": b._I, "C": b._C, "T": b._T}
            for nm, obj in names.items():
                def tracer(old_state, input, new_state, nm=nm):
                    self.cov.add((nm, old_state, input))
                obj.set_trace(tracer)

    def coverage(self):
        return self.cov

    # ---- seams called from patched third-party stand-ins
    def _register_service(self, svc):
        self._pending_services.append(svc)

    def _service_stop(self, svc):
        c = [c for c in self.clients if c.svc is svc]
        c = c[0] if c else None
        d = defer.Deferred()
        if c is not None and (getattr(c, "negotiating", False) or getattr(c, "neg_waiters", None)):
            # stopService while the first connection is still negotiating: fires once the transport has gone (negabort)
            c.neg_waiters.append(d)
            return d
        if c is not None and c.conn is not None and c.conn.open:
            c.conn.stopping = True
            c.conn.down.clear()       # plain TCP: loseConnection stops reading
            svc.stop_d = d
        else:
            d.callback(None)
        return d

    def logged_error(self, rec):
        self.errors.append(rec)

    def _ghost_tx(self, ci, payload):
        g = self.clients[ci].ghost
        m = json.loads(payload.decode("utf-8"))
        if m["type"] == "claim":
            g["claimed_np"].add(m["nameplate"])
        elif m["type"] == "open":
            g["sent_open"].add(m["mailbox"])

    def _ghost_srv(self, cn, payload):
        g = self.clients[cn.ci].ghost
        m = json.loads(payload.decode("utf-8"))
        if m["type"] == "close":
            g["srv_close"].add((m.get("mailbox"), m.get("mood")))
        elif m["type"] == "release":
            g["srv_release"].add(m.get("nameplate"))

    # ---- event menu
    def _all_enabled(self):
        evs = []
        late_down = []
        for c in self.clients:
            cn = c.conn
            if cn and cn.open and not cn.stopping and cn.down and not getattr(cn, "closing", False):
                # late_down: the default schedule delivers to this client only when nothing else can happen
                (late_down if c.ci in self.cfg.get("late_down", ()) else evs).append(("down", c.ci))
        for c in self.clients:
            cn = c.conn
            if cn and cn.open and not cn.stopping and cn.up and not getattr(cn, "closing", False):
                evs.append(("up", c.ci))
        late = []
        for c in self.clients:
            for ti, t in enumerate(c.threads):
                if c.pc[ti] < len(t) and self._step_enabled(c, t[c.pc[ti]]):
                    # close() comes last in the menu: the default schedule lets the protocol run to quiescence first,
                    # closing earlier is a deviation
                    (late if t[c.pc[ti]][0] == "close" else evs).append(("api", c.ci, ti))
        for a in self.raw:
            if a.pc < len(a.script):
                evs.append(("raw", a.ai))
        for c in self.clients:
            if c.clock.calls and c.clock.calls[0].getTime() <= c.clock.seconds():
                evs.append(("turn", c.ci))
        for c in self.clients:
            if c.svc.running and (c.conn is None or not c.conn.open) and not getattr(c, "negotiating", False):
                evs.append(("connect", c.ci))
        if self.cfg.get("negotiation"):
            # the first connection in two steps: TCP established (ClientService holds a protocol, the WebSocket upgrade request is on
            # its way), then the server's answer (= the ordinary `connect` event).  If the application stops the service in
            # between, the transport is closed and Autobahn reports onClose without onOpen (negabort).
            for c in self.clients:
                if c.svc.running and not c.ever_connected and c.conn is None and not getattr(c, "negotiating", False) and not getattr(c, "failed", False):
                    evs.append(("tcpconn", c.ci))
                if getattr(c, "negotiating", False) and c.svc.running:
                    evs.append(("connect", c.ci))
                if getattr(c, "negotiating", False) and c.svc.stopped:
                    evs.append(("negabort", c.ci))
        for c in self.clients:
            if c.conn and c.conn.open and c.conn.stopping:
                evs.append(("stopfin", c.ci))
        if self.net is not None:
            evs.extend(self._net_events())
        evs.extend(late_down)
        evs.extend(late)
        if self.reorder_left > 0:
            for c in self.clients:
                cn = c.conn
                if cn and cn.open and not cn.stopping:
                    for k in range(1, len(cn.down)):
                        # a stored/broadcast `message` overtakes earlier responses (other messages, or replies such as
                        # `released` that the server produces independently of the mailbox broadcast)
                        if cn.down[k]["type"] == "message" and any(cn.down[j]["type"] == "message" for j in range(k)):
                            evs.append(("reorder", c.ci, k))
        if self.dup_left > 0:
            for c in self.clients:
                cn = c.conn
                if cn and cn.open and not cn.stopping:
                    for k, m in enumerate(c.delivered_msgs()):
                        evs.append(("dup", c.ci, k))
        for c in self.clients:
            if c.drops_left > 0 and c.conn and c.conn.open:
                evs.append(("drop", c.ci))
        if self.srverr_left > 0:
            for c in self.clients:
                cn = c.conn
                if cn and cn.open and not cn.stopping and cn.up:
                    t = json.loads(cn.up[0].decode("utf-8"))["type"]
                    if t in self.cfg.get("srverr_types", ("claim", "open")):
                        evs.append(("srverr", c.ci))
        if self.net is not None and self.nlose_left > 0:
            for link in self.net.links:
                for side in (0, 1):
                    if not link.ends[side].transport.closed and not link.broken:
                        evs.append(("nlose", link.idx, side))
        if self.cfg.get("wsclosing"):
            # the server starts the WebSocket closing handshake (it is going down): from the client's point of view the protocol is
            # no longer open -- sendMessage raises -- until the TCP connection is gone (the `drop` that must follow)
            for c in self.clients:
                if c.drops_left > 0 and c.conn and c.conn.open and not c.conn.stopping and not c.conn.down and not getattr(c.conn, "closing", False):
                    evs.append(("wsclosing", c.ci))
        if self.junk_left > 0:
            # a server that is NOT conformant: one response of a known type with its fields missing, pushed to the front of
            # the client's queue (only scenarios about robustness against such a server set cfg junk)
            for c in self.clients:
                if c.conn and c.conn.open and not c.conn.stopping:
                    for j in range(len(JUNK_RESPONSES)):
                        evs.append(("junk", c.ci, j))
        if self.ntimer_left > 0:
            # time passes for one client: its earliest pending timer (ping monitor, relay delay, ...) becomes due and fires
            for c in self.clients:
                if c.clock.calls and c.clock.calls[0].getTime() > c.clock.seconds():
                    evs.append(("ntimer", c.ci))
        if self.hsfail_left > 0:
            # a reconnection attempt whose TCP connection succeeds but whose WebSocket negotiation fails:
            # Autobahn delivers onClose without onOpen; ClientService will simply try again
            for c in self.clients:
                if c.svc.running and c.ever_connected and (c.conn is None or not c.conn.open):
                    evs.append(("hsfail", c.ci))
        if self.cfg.get("initial_fail"):
            for c in self.clients:
                if c.svc.running and not c.ever_connected and c.conn is None and not getattr(c, "failed", False):
                    evs.append(("connfail", c.ci))
        extra = self.cfg.get("extra_events")
        if extra:
            evs.extend(extra(self))
        return evs

    def _net_events(self):
        evs = []
        if True:
            from .simnet import can_close
            for cc in self.net.attempts:
                if cc.state == "connecting":
                    if self.net.listener_for(cc.host, cc.port) is not None:
                        evs.append(("nconn_ok", cc.idx))
                    else:
                        evs.append(("nconn_fail", cc.idx))
            for link in self.net.links:
                for side in (0, 1):
                    end = link.ends[side]
                    if not end.transport.closed and not end.transport.disconnecting and link.pending(side) > 0 \
                            and not end.transport.reading_paused:
                        evs.append(("ndeliver", link.idx, side))
            for link in self.net.links:
                for side in (0, 1):
                    if can_close(link, side):
                        evs.append(("nclose", link.idx, side))
        return evs

    def _step_enabled(self, c, step):
        g = self.cfg.get("step_guard")
        if g:
            return g(self, c, step)
        if step[0] in ("nameplate", "words", "refresh", "completions_np", "completions_w"):
            return c.app.helper is not None
        if step[0] == "set_code_peer":
            return self._peer_code(c) is not None
        if step[0] in ("sub_connect", "sub_listen"):
            return c.app.dilated is not None
        if step[0] == "get_late":       # a get_*() issued only after the closed notification
            return c.app.closed > 0
        return True

    def _peer_code(self, c):
        for o in self.clients:
            if o is not c:
                for k, v in o.app.obs:
                    if k == "code":
                        return v
        return None

    def _is_eager(self, ev):
        if ev[0] not in self.explored:
            return True
        if ev[0] in ("up", "down") and ev[1] in self.coarse:
            return True
        return False

    def enabled(self):
        return [e for e in self._all_enabled() if not self._is_eager(e)]

    def _closure(self):
        n = 0
        while True:
            evs = [e for e in self._all_enabled() if self._is_eager(e) and e[0] not in ("drop", "dup", "reorder", "connfail", "srverr", "nlose", "hsfail", "ntimer", "junk", "wsclosing")]
            if not evs:
                break
            self._do(evs[0])
            n += 1
            if n > 10000:
                raise RuntimeError("eager closure does not terminate")

    def apply(self, ev):
        ev = tuple(ev)
        self._do(ev)
        self._closure()
        for m in self.monitors:
            m(self)

    # ---- event execution
    def _do(self, ev):
        CTX.world = self
        kind = ev[0]
        if kind in ("nconn_ok", "nconn_fail", "ndeliver", "nclose", "nlose"):
            self._net_event(ev)
            return
        if kind == "raw":
            CTX.client = "srv"
            self.raw[ev[1]].step()
            return
        c = self.clients[ev[1]]
        CTX.client = "c%d" % c.ci
        if kind == "down":
            msg = c.conn.down.popleft()
            self._deliver(c, msg)
        elif kind == "up":
            payload = c.conn.up.popleft()
            self._server_rx(c.conn, payload)
        elif kind == "api":
            ti = ev[2]
            step = c.threads[ti][c.pc[ti]]
            c.pc[ti] += 1
            self._api(c, step)
        elif kind == "turn":
            call = c.clock.calls.pop(0)
            call.called = 1
            try:
                call.func(*call.args, **call.kw)
            except Exception as e:   # Twisted's reactor would log this
                self.errors.append((type(e).__name__, str(e)[:160], "delayedcall"))
        elif kind == "ntimer":
            self.ntimer_left -= 1
            call = c.clock.calls.pop(0)
            c.clock.rightNow = max(c.clock.rightNow, call.getTime())
            call.called = 1
            try:
                call.func(*call.args, **call.kw)
            except Exception as e:   # Twisted's reactor would log this
                self.errors.append((type(e).__name__, str(e)[:160], "delayedcall:%s" % getattr(call.func, "__qualname__", "?")))
        elif kind == "tcpconn":
            c.negotiating = True
            c.neg_waiters = []
        elif kind == "negabort":
            c.negotiating = False
            self._guard("ws_close", c, c.boss._RC.ws_close, False, 1006, "connection was closed uncleanly (peer dropped the TCP connection without previous WebSocket closing handshake)")
            ws, c.neg_waiters = c.neg_waiters, []
            for d in ws:           # ClientService fires its stop waiters in registration order
                d.callback(None)
        elif kind == "connect":
            c.negotiating = False
            self._connect(c)
        elif kind == "stopfin":
            self._stopfin(c, process_uplink=True)
        elif kind == "reorder":
            k = ev[2]
            self.reorder_left -= 1
            msg = c.conn.down[k]
            del c.conn.down[k]
            self._deliver(c, msg)
        elif kind == "dup":
            self.dup_left -= 1
            msg = c.delivered_msgs()[ev[2]]
            self._deliver(c, dict(msg), record=False)
        elif kind == "drop":
            c.drops_left -= 1
            if c.conn.stopping:
                self._stopfin(c, process_uplink=False)
            else:
                self._drop(c)
        elif kind == "wsclosing":
            c.conn.closing = True
        elif kind == "junk":
            self.junk_left -= 1
            self._deliver(c, dict(JUNK_RESPONSES[ev[2]]))
        elif kind == "srverr":
            self.srverr_left -= 1
            payload = c.conn.up.popleft()
            orig = json.loads(payload.decode("utf-8"))
            c.conn.down.append({"type": "error", "error": "crowded", "orig": orig})
        elif kind == "hsfail":
            self.hsfail_left -= 1
            self._guard("ws_close", c, c.boss._RC.ws_close, False, 1006, "WebSocket opening handshake failed")
        elif kind == "connfail":
            c.failed = True
            for d in c.svc.when_connected:
                if not d.called:
                    d.errback(Failure(ConnectError("simulated initial connection failure")))
        else:
            h = self.cfg.get("extra_apply")
            if not h or not h(self, ev):
                raise ValueError("unknown event %r" % (ev,))

    def _net_event(self, ev):
        from . import simnet
        from twisted.internet import error as terror
        kind = ev[0]

        def owner(link, side):
            h = link.ends[side].owner
            return "c%d" % PEER_HOSTS.index(h) if h in PEER_HOSTS else "x"

        def guard(tag, f, *a):
            try:
                return f(*a)
            except Exception as e:
                self.escaped.append((tag, -1, type(e).__name__, str(e)[:160], _site(e)))
                return e
        if kind == "nconn_ok":
            cc = self.net.attempts[ev[1]]
            CTX.client = "c%d" % PEER_HOSTS.index(cc.reactor.name)
            guard("net.connect", simnet.establish, self.net, cc)
        elif kind == "nconn_fail":
            cc = self.net.attempts[ev[1]]
            CTX.client = "c%d" % PEER_HOSTS.index(cc.reactor.name)
            guard("net.connect", simnet.refuse, self.net, cc)
        elif kind == "ndeliver":
            link = self.net.links[ev[1]]
            CTX.client = owner(link, ev[2])
            r = guard("net.dataReceived", simnet.deliver, link, ev[2], link.pending(ev[2]))
            if isinstance(r, Exception):
                simnet.close_end(link, ev[2], terror.ConnectionLost())
        elif kind == "nclose":
            link = self.net.links[ev[1]]
            CTX.client = owner(link, ev[2])
            guard("net.connectionLost", simnet.close_end, link, ev[2])
        elif kind == "nlose":
            self.nlose_left -= 1
            link = self.net.links[ev[1]]
            link.broken = True
            CTX.client = owner(link, ev[2])
            guard("net.connectionLost", simnet.close_end, link, ev[2], terror.ConnectionLost())

    def _connect(self, c):
        c.gen += 1
        cn = Conn(self, c.ci, c.gen)
        c.conn = cn
        c.ever_connected = True
        CTX.client = "srv"
        cn.sp.onOpen()
        CTX.client = "c%d" % c.ci
        for d in c.svc.when_connected:
            if not d.called:
                d.callback(cn.ws)
        self._guard("ws_open", c, c.boss._RC.ws_open, cn.ws)

    def _drop(self, c):
        cn = c.conn
        cn.open = False
        cn.up.clear()
        cn.down.clear()
        CTX.client = "srv"
        cn.sp.onClose(False, 1006, "dropped")
        CTX.client = "c%d" % c.ci
        self._guard("ws_close", c, c.boss._RC.ws_close, False, 1006, "connection dropped")

    def _stopfin(self, c, process_uplink):
        cn = c.conn
        if process_uplink:
            while cn.up:
                self._server_rx(cn, cn.up.popleft())
        cn.up.clear()
        cn.down.clear()
        cn.open = False
        CTX.client = "srv"
        cn.sp.onClose(True, 1000, "")
        CTX.client = "c%d" % c.ci
        self._guard("ws_close", c, c.boss._RC.ws_close, True, 1000, "")
        d, c.svc.stop_d = c.svc.stop_d, None
        if d is not None:
            d.callback(None)

    def _server_rx(self, cn, payload):
        CTX.client = "srv"
        h = self.cfg.get("server_hook")
        if h and h(self, cn, payload):
            return
        self._ghost_srv(cn, payload)
        try:
            cn.sp.onMessage(payload, False)
        except Exception as e:
            # the reference server raised while handling a client command (e.g. ValueError for a nameplate it considers
            # invalid): a real deployment logs it and the WebSocket connection is torn down
            self.server_errors.append((cn.ci, type(e).__name__, str(e)[:120]))
            if cn.open:
                self._drop(self.clients[cn.ci])

    def _deliver(self, c, msg, record=True):
        if record and msg.get("type") == "message":
            c.__dict__.setdefault("_delivered", []).append(msg)
        if msg.get("type") == "allocated":
            c.ghost["told_np"].add(msg.get("nameplate"))
        if msg.get("type") == "error" and isinstance(msg.get("orig"), dict) and msg["orig"].get("type") in ("close", "release"):
            c.ghost["close_rejected"] = msg["orig"].get("type") + ":" + str(msg.get("error"))
        if c.ghost["cause"] is None:
            if msg.get("type") == "error":
                c.ghost["cause"] = ("error",)
            elif msg.get("type") == "welcome" and "error" in msg.get("welcome", {}):
                c.ghost["cause"] = ("unwelcome",)
        h = self.cfg.get("deliver_hook")
        if h:
            msg = h(self, c, msg)
            if msg is None:
                return
        payload = json.dumps(msg).encode("utf-8")
        self._guard("ws_message", c, c.boss._RC.ws_message, payload)

    def _guard(self, what, c, f, *a):
        try:
            return f(*a)
        except Exception as e:
            self.escaped.append((what, c.ci, type(e).__name__, str(e)[:160], _site(e)))

    # ---- API steps
    def _api(self, c, step):
        w = c.w
        app = c.app
        op = step[0]
        pre = canon.machine_state(c.boss, type(c.boss).m)
        try:
            if op == "set_code":
                w.set_code(step[1])
            elif op == "set_code_peer":
                w.set_code(self._peer_code(c))
            elif op == "allocate":
                w.allocate_code(*step[1:])
            elif op == "input":
                app.helper = w.input_code()
            elif op == "nameplate":
                app.helper.choose_nameplate(step[1])
            elif op == "words":
                app.helper.choose_words(step[1])
            elif op == "refresh":
                app.helper.refresh_nameplates()
            elif op == "completions_np":
                app.extra.append(("completions_np", tuple(sorted(app.helper.get_nameplate_completions(step[1])))))
            elif op == "completions_w":
                app.extra.append(("completions_w", tuple(sorted(app.helper.get_word_completions(step[1])))))
            elif op == "send":
                app.sent.append(step[1])
                w.send_message(step[1])
            elif op == "close":
                if c.ghost["cause"] is None:
                    c.ghost["cause"] = ("close", any(k == "verifier" for k, v in app.obs))
                if app.mode == "delegate":
                    w.close()
                else:
                    d = w.close()
                    name = "closed" if not app.close_calls else "closed-again"
                    app.close_calls += 1
                    d.addCallbacks(lambda v: app.ev(name, verdict(v)),
                                   lambda f: app.ev(name, verdict(f)))
            elif op == "dilate":
                app.dilated = w.dilate(**(step[1] if len(step) > 1 else {}))
            elif op == "sub_connect":
                from twisted.internet.protocol import Factory, Protocol
                idx = len(app.sub_results)
                app.sub_results.append(None)
                f = Factory.forProtocol(Protocol)
                d = app.dilated.connector_for(step[1]).connect(f)
                d.addCallbacks(lambda p, idx=idx: app.sub_results.__setitem__(idx, "ok"),
                               lambda fl, idx=idx: app.sub_results.__setitem__(idx, type(fl.value).__name__))
            elif op == "sub_listen":
                from twisted.internet.protocol import Factory, Protocol
                idx = len(app.sub_results)
                app.sub_results.append(None)
                f = Factory.forProtocol(Protocol)
                d = app.dilated.listener_for(step[1]).listen(f)
                d.addCallbacks(lambda p, idx=idx: app.sub_results.__setitem__(idx, "listening"),
                               lambda fl, idx=idx: app.sub_results.__setitem__(idx, type(fl.value).__name__))
            elif op == "derive":
                app.extra.append(("derive", step[1], step[2], w.derive_key(step[1], step[2])))
            elif op in ("get", "get_late"):
                self._get(c, step[1], late=(op == "get_late"))
            else:
                h = self.cfg.get("api_hook")
                if not h or not h(self, c, step):
                    raise ValueError("unknown api step %r" % (step,))
        except DOCUMENTED_API_ERRORS as e:
            app.api_errors.append((op, type(e).__name__))
        except Exception as e:
            app.api_errors.append((op, type(e).__name__))
            self.escaped.append(("api:" + op, c.ci, type(e).__name__, str(e)[:160], _site(e), pre))

    def _get(self, c, what, late=False):
        app = c.app
        w = c.w
        n = len(app.extra)
        what0 = what
        if late:
            what = what
        d = {"code": w.get_code, "key": w.get_unverified_key, "verifier": w.get_verifier,
             "versions": w.get_versions, "message": w.get_message, "welcome": w.get_welcome}[what]()
        slot = ["get:" + what, n, "pending", None, "late" if (late or app.closed) else "early"]
        app.extra.append(slot)

        def ok(v):
            slot[2] = "ok"
            slot[3] = v if isinstance(v, (bytes, str)) else json.dumps(v, sort_keys=True)
            app.ev("got:" + what, (n, slot[3]))

        def bad(f):
            slot[2] = "err"
            slot[3] = type(f.value).__name__
            app.ev("goterr:" + what, (n, slot[3]))
        d.addCallbacks(ok, bad)

    # ---- state
    def server_dump(self):
        db = self.db
        out = {}
        out["nameplates"] = [(r["app_id"], r["name"], r["mailbox_id"]) for r in
                             db.execute("SELECT * FROM nameplates ORDER BY id").fetchall()]
        out["nameplate_sides"] = [(r["nameplates_id"], r["claimed"], r["side"]) for r in
                                  db.execute("SELECT * FROM nameplate_sides ORDER BY nameplates_id, side").fetchall()]
        out["mailboxes"] = [(r["app_id"], r["id"], r["for_nameplate"]) for r in
                            db.execute("SELECT * FROM mailboxes ORDER BY id").fetchall()]
        out["mailbox_sides"] = [(r["mailbox_id"], r["opened"], r["side"], r["mood"]) for r in
                                db.execute("SELECT * FROM mailbox_sides ORDER BY mailbox_id, side").fetchall()]
        out["messages"] = [(r["app_id"], r["mailbox_id"], r["side"], r["phase"], r["body"]) for r in
                           db.execute("SELECT * FROM messages ORDER BY server_rx, rowid").fetchall()]
        return out

    def image(self):
        opaque = [FakeWS, Conn, MailboxWorld, Clock, FakeClientService, rz.WSFactory]
        deny = canon.DENY_ATTRS
        if self.net is not None:
            from .simnet import Net, SimReactor
            import noise.connection as _nc
            from twisted.internet.task import Cooperator
            opaque += [Net, SimReactor, _nc.NoiseConnection, Cooperator]
            deny = deny | {"_status", "_latest_status", "_description", "factory", "_coopTask"}
        im = canon.Imager(opaque_types=tuple(opaque), deny=deny)
        parts = []
        for c in self.clients:
            cn = c.conn
            conn_img = None
            if cn is not None:
                sp = cn.sp
                conn_img = (cn.open, cn.stopping, getattr(cn, "closing", False), tuple(bytes(x) for x in cn.up),
                            tuple(json.dumps(m, sort_keys=True) for m in cn.down),
                            (sp._app is not None, sp._side, sp._did_allocate, sp._listening, sp._did_claim,
                             sp._nameplate_id, sp._did_release, sp._did_open, sp._mailbox is not None,
                             sp._mailbox_id, sp._did_close))
            timers = tuple((round(dc.getTime() - c.clock.seconds(), 6), getattr(dc.func, "__qualname__", "?"))
                           for dc in c.clock.calls)
            parts.append((c.ci, tuple(c.pc), c.drops_left, c.ever_connected, getattr(c, "failed", False),
                          c.svc.running, c.svc.stopped, c.svc.stop_d is not None, getattr(c, "negotiating", False), len(getattr(c, "neg_waiters", ())),
                          conn_img, timers,
                          tuple(json.dumps(m, sort_keys=True) for m in c.delivered_msgs()) if self.dup_left else (),
                          im.img(c.boss), im.img(c.app), im.img(c.ghost)))
        srv = self.server_dump()
        netimg = None
        if self.net is not None:
            links = []
            for link in self.net.links:
                links.append((tuple(b"".join(q) for q in link.queues), link.broken,
                              tuple((e.transport.closed, e.transport.disconnecting, e.owner) for e in link.ends)))
            netimg = (tuple(links), tuple((a.reactor.name, a.host, a.port, a.state) for a in self.net.attempts),
                      tuple(sorted((h, p, port.listening) for (h, p), port in self.net.listeners.items())), self.nlose_left, self.ntimer_left)
        return (netimg, tuple(parts), tuple((a.pc, a.mailbox, a.errors) for a in self.raw), im.img(srv), self.reorder_left, self.dup_left, self.srverr_left, self.hsfail_left, self.junk_left,
                tuple(self.errors), tuple(self.escaped), tuple(self.server_errors),
                im.img(self.cfg.get("extra_state")(self)) if self.cfg.get("extra_state") else None)

    def key(self):
        return canon.key_of((self.image(), tuple(self.enabled())))

    # ---- oracles
    def violations(self):
        return list(self.viol)

    def final_violations(self):
        out = []
        for m in self.final_monitors:
            out.extend(m(self) or [])
        return out

    def flag(self, oracle, sig, msg):
        for v in self.viol:
            if v["oracle"] == oracle and v["sig"] == sig:
                return
        self.viol.append(dict(oracle=oracle, sig=sig, msg=msg))

    def outcome(self):
        return tuple((tuple(c.app.obs), tuple(c.app.api_errors)) for c in self.clients) + (
            tuple(self.errors), tuple(self.escaped))


def _site(e):
    import os
    import traceback
    tb = traceback.extract_tb(e.__traceback__)
    # innermost frame inside the repository (skip automat / stdlib frames)
    for fr in reversed(tb):
        if "/wormhole/" in fr.filename and "site-packages" not in fr.filename:
            return "%s:%s" % (os.path.basename(fr.filename), fr.name)
    fr = tb[-1]
    return "%s:%s" % (os.path.basename(fr.filename), fr.name)


def _delivered_msgs(self):
    return self.__dict__.get("_delivered", [])


Client.delivered_msgs = _delivered_msgs
