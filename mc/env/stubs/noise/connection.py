import hashlib
import hmac
import os
import struct

from cryptography.exceptions import InvalidTag
from cryptography.hazmat.primitives.asymmetric.x25519 import X25519PrivateKey, X25519PublicKey
from cryptography.hazmat.primitives.ciphers.aead import ChaCha20Poly1305
from cryptography.hazmat.primitives import serialization

from .exceptions import NoiseHandshakeError, NoiseInvalidMessage, NoiseProtocolNameError, NoisePSKError

MAX_MESSAGE_LEN = 65535
NAME = b"Noise_NNpsk0_25519_ChaChaPoly_BLAKE2s"

# the harness may replace this to make ephemeral keys deterministic
entropy = os.urandom


def _hash(data):
    return hashlib.blake2s(data).digest()


def _hmac(key, data):
    return hmac.new(key, data, hashlib.blake2s).digest()


def _hkdf(ck, ikm, n):
    temp = _hmac(ck, ikm)
    o1 = _hmac(temp, b"\x01")
    o2 = _hmac(temp, o1 + b"\x02")
    if n == 2:
        return o1, o2
    o3 = _hmac(temp, o2 + b"\x03")
    return o1, o2, o3


class _Cipher:
    def __init__(self, k=None):
        self.k = k
        self.n = 0

    def _nonce(self):
        return b"\x00\x00\x00\x00" + struct.pack("<Q", self.n)

    def encrypt(self, ad, pt):
        if self.k is None:
            return pt
        ct = ChaCha20Poly1305(self.k).encrypt(self._nonce(), pt, ad)
        self.n += 1
        return ct

    def decrypt(self, ad, ct):
        if self.k is None:
            return ct
        pt = ChaCha20Poly1305(self.k).decrypt(self._nonce(), ct, ad)  # may raise InvalidTag
        self.n += 1
        return pt


class NoiseConnection:
    def __init__(self):
        self._psk = None
        self._initiator = None
        self._started = False
        self.handshake_finished = False
        self._msg = 0

    @classmethod
    def from_name(cls, name):
        if isinstance(name, str):
            name = name.encode("ascii")
        if name != NAME:
            raise NoiseProtocolNameError("stand-in only implements %r" % NAME)
        return cls()

    def set_psks(self, psk=None, psks=None):
        if psk is None and psks:
            psk = psks[0]
        if not isinstance(psk, (bytes, bytearray)) or len(psk) != 32:
            raise NoisePSKError("PSK must be 32 bytes")
        self._psk = bytes(psk)

    def set_as_initiator(self):
        self._initiator = True

    def set_as_responder(self):
        self._initiator = False

    def start_handshake(self):
        if self._initiator is None or self._psk is None:
            raise NoiseHandshakeError("role and psk must be set first")
        self._started = True
        self.h = _hash(NAME) if len(NAME) > 32 else NAME.ljust(32, b"\x00")
        self.ck = self.h
        self._mix_hash(b"")   # empty prologue
        self.cs = _Cipher()
        self.e = None
        self.re = None
        self._next_is_write = self._initiator

    # symmetric state
    def _mix_hash(self, data):
        self.h = _hash(self.h + data)

    def _mix_key(self, ikm):
        self.ck, temp_k = _hkdf(self.ck, ikm, 2)
        self.cs = _Cipher(temp_k)

    def _mix_key_and_hash(self, ikm):
        self.ck, temp_h, temp_k = _hkdf(self.ck, ikm, 3)
        self._mix_hash(temp_h)
        self.cs = _Cipher(temp_k)

    def _encrypt_and_hash(self, pt):
        ct = self.cs.encrypt(self.h, pt)
        self._mix_hash(ct)
        return ct

    def _decrypt_and_hash(self, ct):
        pt = self.cs.decrypt(self.h, ct)
        self._mix_hash(ct)
        return pt

    def _split(self):
        k1, k2 = _hkdf(self.ck, b"", 2)
        c1, c2 = _Cipher(k1), _Cipher(k2)
        if self._initiator:
            self._send, self._recv = c1, c2
        else:
            self._send, self._recv = c2, c1
        self.handshake_finished = True

    def _gen_e(self):
        self.e = X25519PrivateKey.from_private_bytes(entropy(32))
        return self.e.public_key().public_bytes(serialization.Encoding.Raw, serialization.PublicFormat.Raw)

    def write_message(self, payload=b""):
        if not self._started:
            raise NoiseHandshakeError("Call NoiseConnection.start_handshake first")
        if self.handshake_finished:
            raise NoiseHandshakeError("Handshake finished. NoiseConnection.encrypt should be used now")
        if not self._next_is_write:
            raise NoiseHandshakeError("NoiseConnection.read_message has to be called now")
        self._next_is_write = False
        buf = b""
        if self._initiator:
            # -> psk, e
            self._mix_key_and_hash(self._psk)
            epub = self._gen_e()
            buf += epub
            self._mix_hash(epub)
            self._mix_key(epub)
            buf += self._encrypt_and_hash(payload)
        else:
            # <- e, ee
            epub = self._gen_e()
            buf += epub
            self._mix_hash(epub)
            self._mix_key(epub)
            self._mix_key(self.e.exchange(self.re))
            buf += self._encrypt_and_hash(payload)
            self._split()
        return buf

    def read_message(self, data):
        if not self._started:
            raise NoiseHandshakeError("Call NoiseConnection.start_handshake first")
        if self.handshake_finished:
            raise NoiseHandshakeError("Handshake finished. NoiseConnection.decrypt should be used now")
        if self._next_is_write:
            raise NoiseHandshakeError("NoiseConnection.write_message has to be called now")
        data = bytes(data)
        if len(data) > MAX_MESSAGE_LEN:
            raise NoiseInvalidMessage("Message must be less or equal to %d bytes in length" % MAX_MESSAGE_LEN)
        self._next_is_write = True
        try:
            if len(data) < 32:
                raise NoiseInvalidMessage("handshake message too short")
            if not self._initiator:
                # -> psk, e
                self._mix_key_and_hash(self._psk)
                re = data[:32]
                self.re = X25519PublicKey.from_public_bytes(re)
                self._mix_hash(re)
                self._mix_key(re)
                return self._decrypt_and_hash(data[32:])
            else:
                re = data[:32]
                self.re = X25519PublicKey.from_public_bytes(re)
                self._mix_hash(re)
                self._mix_key(re)
                self._mix_key(self.e.exchange(self.re))
                pt = self._decrypt_and_hash(data[32:])
                self._split()
                return pt
        except (InvalidTag, ValueError):
            raise NoiseInvalidMessage("Failed authentication of handshake message")

    def encrypt(self, data):
        if not self.handshake_finished:
            raise NoiseHandshakeError("Handshake not finished yet!")
        if not isinstance(data, (bytes, bytearray)) or len(data) > MAX_MESSAGE_LEN:
            raise NoiseInvalidMessage("Data must be bytes and less or equal to %d bytes in length" % MAX_MESSAGE_LEN)
        return self._send.encrypt(b"", bytes(data))

    def decrypt(self, data):
        if not self.handshake_finished:
            raise NoiseHandshakeError("Handshake not finished yet!")
        if not isinstance(data, (bytes, bytearray)) or len(data) > MAX_MESSAGE_LEN:
            raise NoiseInvalidMessage("Data must be bytes and less or equal to %d bytes in length" % MAX_MESSAGE_LEN)
        try:
            return self._recv.decrypt(b"", bytes(data))
        except InvalidTag:
            raise NoiseInvalidMessage("Failed authentication of message")
