class NoiseProtocolNameError(Exception):
    pass


class NoiseHandshakeError(Exception):
    pass


class NoiseInvalidMessage(Exception):
    pass


class NoiseMaxNonceError(Exception):
    pass


class NoisePSKError(Exception):
    pass


class NoiseValueError(Exception):
    pass
