"""Stand-in for the `noiseprotocol` package (not installed in this sandbox and
not fetchable).  Implements exactly Noise_NNpsk0_25519_ChaChaPoly_BLAKE2s per
the Noise specification (rev 34) with `cryptography` primitives, exposing the
calls magic-wormhole makes.  Only on sys.path for the /verif checks."""
