"""Simulated TCP network for W2/W3: SimReactor (IReactorTime + IReactorTCP +
a synchronous name resolver) on top of twisted's Clock, byte-queue links, and
explicit events for everything that can happen on the network.  The
repository's own use of endpoints / callLater / deferLater runs unmodified."""
from collections import deque

from twisted.internet import address, error, interfaces
from twisted.internet.task import Clock
from twisted.python.failure import Failure
from zope.interface import implementer


class Net:
    """All hosts share one Net; a host is a SimReactor with a name (= its IP)."""

    def __init__(self):
        self.listeners = {}     # (host, port) -> SimPort
        self.attempts = []      # SimConnector in creation order
        self.links = []         # Link in creation order
        self.dialled = []       # (from_host, to_host, to_port) every connectTCP ever issued
        self.strangers = {}     # (host, port) -> callable(link_end) for scripted listeners

    def listener_for(self, host, port):
        p = self.listeners.get((host, port))
        if p is not None and p.listening:
            return p
        p = self.listeners.get(("*", port))
        if p is not None and p.listening:
            return p
        return None


@implementer(interfaces.IListeningPort)
class SimPort:
    def __init__(self, net, host, port, factory):
        self.net, self.host, self.port, self.factory = net, host, port, factory
        self.listening = True

    def startListening(self):
        pass

    def stopListening(self):
        if self.listening:
            self.listening = False
            self.factory.doStop()
        from twisted.internet import defer
        return defer.succeed(None)

    def getHost(self):
        return address.IPv4Address("TCP", self.host, self.port)


@implementer(interfaces.IConnector)
class SimConnector:
    def __init__(self, reactor, host, port, factory, timeout):
        self.reactor, self.host, self.port, self.factory, self.timeout = reactor, host, port, factory, timeout
        self.state = "connecting"   # connecting | connected | failed | cancelled
        self.link = None
        self.idx = None

    def stopConnecting(self):
        if self.state != "connecting":
            raise error.NotConnectingError("we're not trying to connect")
        self.state = "cancelled"
        self.factory.clientConnectionFailed(self, Failure(error.UserError()))
        self.factory.doStop()

    def disconnect(self):
        if self.state == "connecting":
            self.stopConnecting()
        elif self.state == "connected" and self.link is not None:
            self.link.ends[0].transport.loseConnection()

    def connect(self):
        raise NotImplementedError("reconnect not modelled")

    def getDestination(self):
        return address.IPv4Address("TCP", self.host, self.port)


@implementer(interfaces.ITransport, interfaces.IConsumer, interfaces.IPushProducer, interfaces.ITCPTransport)
class SimTransport:
    def __init__(self, link, side, host_addr, peer_addr):
        self.link = link
        self.side = side            # 0 = connecting end, 1 = listening end
        self.host_addr, self.peer_addr = host_addr, peer_addr
        self.protocol = None
        self.disconnecting = False  # loseConnection() called
        self.closed = False         # connectionLost delivered to our protocol
        self.connected = True
        self.reading_paused = False
        self.producer = None
        self.streaming = None
        self.written = 0
        self.lose_calls = 0

    # ITransport
    def write(self, data):
        if self.closed or self.disconnecting or self.link.broken:
            return
        if data:
            self.written += len(data)
            self.link.queues[self.side].append(bytes(data))
            hook = getattr(self, "on_write", None)
            if hook is not None:
                hook(self, data)

    def writeSequence(self, seq):
        for d in seq:
            self.write(d)

    def loseConnection(self, *a):
        self.lose_calls += 1
        if not self.closed:
            self.disconnecting = True

    def abortConnection(self):
        self.lose_calls += 1
        if not self.closed:
            self.disconnecting = True
            self.link.queues[self.side].clear()

    def getPeer(self):
        return self.peer_addr

    def getHost(self):
        return self.host_addr

    def getTcpNoDelay(self):
        return False

    def setTcpNoDelay(self, v):
        pass

    def getTcpKeepAlive(self):
        return False

    def setTcpKeepAlive(self, v):
        pass

    def loseWriteConnection(self):
        self.loseConnection()

    # IConsumer
    def registerProducer(self, producer, streaming):
        if self.producer is not None:
            raise RuntimeError("Cannot register producer %s, because producer %s was never unregistered." % (
                producer, self.producer))
        self.producer = producer
        self.streaming = streaming
        if self.closed:
            producer.stopProducing()

    def unregisterProducer(self):
        self.producer = None

    # IPushProducer (reading side)
    def pauseProducing(self):
        self.reading_paused = True

    def resumeProducing(self):
        self.reading_paused = False

    def stopProducing(self):
        self.loseConnection()


class End:
    def __init__(self, link, side, owner):
        self.link, self.side, self.owner = link, side, owner
        self.transport = None
        self.protocol = None


class Link:
    """queues[s] = bytes written by end s, travelling to end 1-s"""

    def __init__(self, net, idx):
        self.net, self.idx = net, idx
        self.queues = [deque(), deque()]
        self.ends = [None, None]
        self.broken = False     # an abortive loss was injected
        self.tag = None

    def pending(self, to_side):
        return sum(len(x) for x in self.queues[1 - to_side])

    def take(self, to_side, n):
        q = self.queues[1 - to_side]
        out = b""
        while q and len(out) < n:
            chunk = q.popleft()
            need = n - len(out)
            if len(chunk) > need:
                q.appendleft(chunk[need:])
                chunk = chunk[:need]
            out += chunk
        return out


class _Resolver:
    """synchronous IHostnameResolver: every name resolves to itself"""

    def resolveHostName(self, resolutionReceiver, hostName, portNumber=0, addressTypes=None, transportSemantics="TCP"):
        class _Res:
            name = hostName

            def cancel(self_):
                pass
        resolutionReceiver.resolutionBegan(_Res())
        resolutionReceiver.addressResolved(address.IPv4Address("TCP", hostName, portNumber))
        resolutionReceiver.resolutionComplete()
        return resolutionReceiver


@implementer(interfaces.IReactorTime, interfaces.IReactorTCP, interfaces.IReactorPluggableNameResolver)
class SimReactor(Clock):
    def __init__(self, net, name):
        Clock.__init__(self)
        self.net = net
        self.name = name
        self.nameResolver = _Resolver()
        self.ports = []
        self.connectors = []

    def installNameResolver(self, r):
        old, self.nameResolver = self.nameResolver, r
        return old

    def listenTCP(self, port, factory, backlog=50, interface=""):
        if port == 0:
            port = 42000 + len(self.ports)
        p = SimPort(self.net, self.name, port, factory)
        if self.net.listener_for(self.name, port) is not None:
            raise error.CannotListenError(interface, port, "address in use")
        self.net.listeners[(self.name, port)] = p
        self.ports.append(p)
        factory.doStart()
        return p

    def connectTCP(self, host, port, factory, timeout=30, bindAddress=None):
        c = SimConnector(self, host, port, factory, timeout)
        c.idx = len(self.net.attempts)
        self.net.attempts.append(c)
        self.connectors.append(c)
        self.net.dialled.append((self.name, host, port))
        factory.doStart()
        factory.startedConnecting(c)
        return c

    # events -----------------------------------------------------------
    def due(self):
        return bool(self.calls) and self.calls[0].getTime() <= self.seconds()

    def fire_one(self):
        call = self.calls.pop(0)
        call.called = 1
        call.func(*call.args, **call.kw)

    def next_timer_delay(self):
        if not self.calls:
            return None
        return max(0.0, self.calls[0].getTime() - self.seconds())


def establish(net, connector, server_factory=None, server_host=None):
    """conn_ok: complete a pending connection attempt.  Returns the Link."""
    assert connector.state == "connecting"
    port = net.listener_for(connector.host, connector.port)
    link = Link(net, len(net.links))
    net.links.append(link)
    caddr = address.IPv4Address("TCP", connector.reactor.name, 30000 + link.idx)
    saddr = address.IPv4Address("TCP", connector.host, connector.port)
    ta = SimTransport(link, 0, caddr, saddr)
    tb = SimTransport(link, 1, saddr, caddr)
    ea, eb = End(link, 0, connector.reactor.name), End(link, 1, connector.host)
    ea.transport, eb.transport = ta, tb
    link.ends = [ea, eb]
    connector.state = "connected"
    connector.link = link
    sfac = server_factory or (port.factory if port else None)
    sp = sfac.buildProtocol(caddr) if sfac is not None else None
    cp = connector.factory.buildProtocol(saddr)
    ea.protocol, eb.protocol = cp, sp
    ta.protocol, tb.protocol = cp, sp
    hook = getattr(net, "on_new_link", None)
    if hook is not None:
        hook(link)
    if sp is not None:
        sp.makeConnection(tb)
    if cp is not None:
        cp.makeConnection(ta)
    else:
        ta.loseConnection()
    return link


def refuse(net, connector, exc=None):
    assert connector.state == "connecting"
    connector.state = "failed"
    connector.factory.clientConnectionFailed(connector, Failure(exc or error.ConnectionRefusedError()))
    connector.factory.doStop()


def deliver(link, to_side, n):
    data = link.take(to_side, n)
    end = link.ends[to_side]
    # Twisted's TCP transport stops reading as soon as loseConnection() has been called
    # (a scenario may set net.linger_reads: transports such as TLS keep delivering what was in flight until the close completes)
    if data and end.protocol is not None and not end.transport.closed and (
            not end.transport.disconnecting or getattr(link.net, "linger_reads", False)):
        end.protocol.dataReceived(data)
    return data


def close_end(link, side, reason=None):
    """the protocol at `side` observes the end of the connection"""
    end = link.ends[side]
    t = end.transport
    if t.closed:
        return
    t.closed = True
    t.connected = False
    link.queues[1 - side].clear()          # nothing more will be read here
    prod = t.producer
    t.producer = None
    if prod is not None:
        try:
            prod.stopProducing()
        except Exception:
            pass
    if end.protocol is not None:
        end.protocol.connectionLost(Failure(reason or error.ConnectionDone()))


def can_close(link, side):
    """a graceful close is observable at `side` when the local end asked for it, or the
    peer end is gone / asked for it and everything it wrote has been delivered"""
    t = link.ends[side].transport
    if t.closed:
        return False
    if t.disconnecting:
        return True
    o = link.ends[1 - side].transport
    if (o.closed or o.disconnecting) and link.pending(side) == 0:
        return True
    if link.broken:
        return True
    return False
