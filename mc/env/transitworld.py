"""W2: real TransitSender / TransitReceiver / Connection objects on the
simulated network, with a harness relay and scripted strangers."""
from twisted.internet import protocol, error

from . import patches
from .patches import CTX
from .simnet import Net, SimReactor, establish, refuse, deliver, close_end, can_close
from ..core import canon

patches.install()

from wormhole import transit, ipaddrs  # noqa: E402


class _FixedTime:
    def time(self):
        return 1000.0


transit.time = _FixedTime()
transit.set = patches.OSet      # deterministic iteration over sets of Deferreds (see patches.OSet)
# TimeoutMixin's documented seam: route the per-connection handshake timeout to the owner's reactor
transit.Connection.callLater = lambda self, period, func: self.owner._reactor.callLater(period, func)

S_HOST, R_HOST, RELAY_HOST, X_HOST = "10.0.0.1", "10.0.0.2", "10.0.0.9", "10.0.0.66"
RELAY2_HOST = "10.0.0.10"
RELAY_PORT = 4001
KEY = b"\x11" * 32
OTHER_KEY = b"\x22" * 32


class RelayProto(protocol.Protocol):
    """magic-wormhole-transit-relay, reduced: pair two connections that present the same token"""

    def __init__(self, relay):
        self.relay = relay
        self.buf = b""
        self.peer = None
        self.token = None

    def dataReceived(self, data):
        if self.peer is not None:
            self.peer.transport.write(data)
            return
        self.buf += data
        if self.token is None and b"\n" in self.buf:
            line, self.buf = self.buf.split(b"\n", 1)
            parts = line.split(b" ")
            if len(parts) == 6 and parts[0] == b"please" and parts[1] == b"relay":
                self.token, self.side = parts[2], parts[5]
                for other in self.relay.waiting:
                    if other.token == self.token and other.side != self.side and other.peer is None:
                        self.relay.waiting.remove(other)
                        self.peer, other.peer = other, self
                        for p in (self, other):
                            p.transport.write(b"ok\n")
                        for p in (self, other):
                            if p.buf:
                                p.peer.transport.write(p.buf)
                                p.buf = b""
                        return
                self.relay.waiting.append(self)
            else:
                self.transport.write(b"bad handshake\n")
                self.transport.loseConnection()

    def connectionLost(self, reason=None):
        if self in self.relay.waiting:
            self.relay.waiting.remove(self)
        if self.peer is not None and self.peer.transport is not None:
            self.peer.transport.loseConnection()


class Relay(protocol.ServerFactory):
    def __init__(self):
        self.waiting = []

    def buildProtocol(self, addr):
        return RelayProto(self)


class StrangerProto(protocol.Protocol):
    """writes a scripted byte string on connect and otherwise stays silent"""

    def __init__(self, script):
        self.script = script
        self.got = b""

    def connectionMade(self):
        if self.script:
            self.transport.write(self.script)

    def dataReceived(self, data):
        self.got += data


class StrangerFactory(protocol.ClientFactory):
    def __init__(self, script):
        self.script = script
        self.proto = None

    def buildProtocol(self, addr):
        self.proto = StrangerProto(self.script)
        return self.proto

    def clientConnectionFailed(self, connector, reason):
        pass


class StrangerServer(protocol.ServerFactory):
    def __init__(self, script):
        self.script = script

    def buildProtocol(self, addr):
        return StrangerProto(self.script)


def stranger_script(kind, as_role):
    """bytes a stranger says; as_role = the role it pretends to have ('sender' or 'receiver')"""
    good = (transit.build_sender_handshake if as_role == "sender" else transit.build_receiver_handshake)(KEY)
    other = (transit.build_sender_handshake if as_role == "sender" else transit.build_receiver_handshake)(OTHER_KEY)
    return {
        "junk": b"\x00\xffjunk junk junk\n\n",
        "http": b"GET / HTTP/1.1\r\nHost: x\r\n\r\n",
        "partial": good[:30],
        "otherkey": other + (b"go\n" if as_role == "sender" else b""),
        "go-early": b"go\n",
        "silent": b"",
        "prefix-then-junk": good[:20] + b"XXXX",
        # right for the first 60 bytes, wrong in the tail (same length), then behaves like a peer
        "late-diverge": good[:60] + bytes((b ^ 1) if chr(b).isalnum() else b for b in good[60:]) + (b"go\n" if as_role == "sender" else b""),
        # correct handshake of the *same* role as the victim (reflection of what the victim itself says)
        "reflect": ((transit.build_receiver_handshake if as_role == "sender" else transit.build_sender_handshake)(KEY)),
    }[kind]


class TransitWorld:
    """cfg: r_listens, s_listens, relay (bool), strangers=[(kind, target)], lose=int,
    explored kinds; connect calls are API events of the two parties."""

    def __init__(self, cfg, seed=0):
        self.cfg = cfg
        self.seed = seed
        self._streams = {}
        self.viol = []
        self.errors = []
        CTX.world = self
        CTX.client = "transit"
        self.net = Net()
        self.net.linger_reads = bool(cfg.get("linger_reads"))
        self.set_order = cfg.get("set_order", "ins")
        self.rs = SimReactor(self.net, S_HOST)
        self.rr = SimReactor(self.net, R_HOST)
        self.rx = SimReactor(self.net, X_HOST)
        self.rrelay = SimReactor(self.net, RELAY_HOST)
        self.reactors = [self.rs, self.rr, self.rx, self.rrelay]
        self.now = 0.0
        relay_arg = relay_arg2 = None
        if cfg.get("relay"):
            self.relay = Relay()
            self.rrelay.listenTCP(RELAY_PORT, self.relay)
            relay_arg = relay_arg2 = "tcp:%s:%d" % (RELAY_HOST, RELAY_PORT)
        if cfg.get("relay2"):
            # a second relay server, configured on the receiver only: each side then knows two relays of equal priority
            self.relay2 = Relay()
            self.rrelay2 = SimReactor(self.net, RELAY2_HOST)
            self.reactors.append(self.rrelay2)
            self.rrelay2.listenTCP(RELAY_PORT, self.relay2)
            relay_arg2 = "tcp:%s:%d" % (RELAY2_HOST, RELAY_PORT)
        ports = {S_HOST: 46001, R_HOST: 46002}
        saved = (transit.allocate_tcp_port, ipaddrs.find_addresses)
        try:
            transit.allocate_tcp_port = lambda: ports[S_HOST]
            ipaddrs.find_addresses = lambda: [S_HOST]
            self.S = transit.TransitSender(relay_arg, no_listen=not cfg.get("s_listens"), reactor=self.rs)
            hs = []
            self.S.get_connection_hints().addCallback(hs.append)
            transit.allocate_tcp_port = lambda: ports[R_HOST]
            ipaddrs.find_addresses = lambda: [R_HOST]
            self.R = transit.TransitReceiver(relay_arg2, no_listen=not cfg.get("r_listens"), reactor=self.rr)
            hr = []
            self.R.get_connection_hints().addCallback(hr.append)
        finally:
            transit.allocate_tcp_port, ipaddrs.find_addresses = saved
        self.S.set_transit_key(KEY)
        self.R.set_transit_key(KEY)
        # stranger listeners reachable through bogus hints
        extra_s, extra_r = [], []
        self.stranger_specs = list(cfg.get("strangers", ()))
        for i, (kind, target) in enumerate(self.stranger_specs):
            if target in ("hint-for-S", "hint-for-R"):
                port = 47000 + i
                role = "receiver" if target == "hint-for-S" else "sender"
                self.rx.listenTCP(port, StrangerServer(stranger_script(kind, role)))
                h = {"type": "direct-tcp-v1", "hostname": X_HOST, "port": port, "priority": 0.0}
                (extra_s if target == "hint-for-S" else extra_r).append(h)
            if target in ("relay-hint-for-S", "relay-hint-for-R"):
                # a relay server run by someone without the transit key: it answers "ok" and then speaks itself, in one segment
                port = 47000 + i
                role = "receiver" if target == "relay-hint-for-S" else "sender"
                self.rx.listenTCP(port, StrangerServer(b"ok\n" + stranger_script(kind, role)))
                h = {"type": "relay-v1", "hints": [{"type": "direct-tcp-v1", "hostname": X_HOST, "port": port, "priority": 0.0}]}
                (extra_s if target == "relay-hint-for-S" else extra_r).append(h)
        self.S.add_connection_hints(hr[0] + extra_s)
        self.R.add_connection_hints(hs[0] + extra_r)
        self.results = {"S": None, "R": None}
        self.called = {"S": False, "R": False}
        self.stranger_done = [t in ("hint-for-S", "hint-for-R", "relay-hint-for-S", "relay-hint-for-R") for (_, t) in self.stranger_specs]
        self.lose_left = cfg.get("lose", 0)
        self.explored = set(cfg.get("explored", ("api", "conn_ok", "conn_fail", "deliver", "timer", "close", "lose", "stranger")))
        self.monitors = list(cfg.get("monitors", ()))
        self.final_monitors = list(cfg.get("final_monitors", ()))
        self._closure()

    def logged_error(self, rec):
        self.errors.append(rec)

    # ------------------------------------------------------------ events
    def _all_enabled(self):
        evs = []
        for who in ("S", "R"):
            if not self.called[who]:
                evs.append(("api", who))
        for r in self.reactors:
            if r.due():
                evs.append(("turn", r.name))
        for link in self.net.links:
            for side in (0, 1):
                t = link.ends[side].transport
                if t.producer is not None and t.streaming is False and not t.closed and not t.disconnecting:
                    evs.append(("pull", link.idx, side))
        for link in self.net.links:
            for side in (0, 1):
                end = link.ends[side]
                if not end.transport.closed and (not end.transport.disconnecting or getattr(self.net, "linger_reads", False)) \
                        and link.pending(side) > 0 and not end.transport.reading_paused:
                    for n in self._chunks(link, side):
                        evs.append(("deliver", link.idx, side, n))
        for c in self.net.attempts:
            if c.state == "connecting":
                if self.net.listener_for(c.host, c.port) is not None:
                    evs.append(("conn_ok", c.idx))
                if self.cfg.get("conn_fail", True) or self.net.listener_for(c.host, c.port) is None:
                    evs.append(("conn_fail", c.idx))
        for i, (kind, target) in enumerate(self.stranger_specs):
            if not self.stranger_done[i]:
                host, port = {"R-listener": (R_HOST, 46002), "S-listener": (S_HOST, 46001)}[target]
                if self.net.listener_for(host, port) is not None:
                    evs.append(("stranger", i))
        for link in self.net.links:
            for side in (0, 1):
                if can_close(link, side):
                    evs.append(("close", link.idx, side))
        if any(r.calls for r in self.reactors) and not any(r.due() for r in self.reactors):
            if not (self.cfg.get("lazy_timer") and evs):
                evs.append(("timer",))
        if self.lose_left > 0:
            for link in self.net.links:
                for side in (0, 1):
                    if not link.ends[side].transport.closed and not link.broken:
                        evs.append(("lose", link.idx, side))
        return evs

    def _chunks(self, link, side):
        n = link.pending(side)
        mode = self.cfg.get("chunking", "whole")
        if mode == "whole":
            return [n]
        if mode == "lines":
            data = b"".join(link.queues[1 - side])
            cuts = set([n])
            i = data.find(b"\n")
            if i >= 0:
                cuts.add(i + 1)
            return sorted(cuts)
        return sorted(set([1, n]))

    def _is_eager(self, ev):
        if ev[0] in ("turn", "pull"):
            return True
        return ev[0] not in self.explored

    def enabled(self):
        return [e for e in self._all_enabled() if not self._is_eager(e)]

    def _closure(self):
        n = 0
        while True:
            evs = [e for e in self._all_enabled() if self._is_eager(e) and e[0] not in ("lose", "conn_fail", "stranger")]
            if not evs:
                break
            self._do(evs[0])
            n += 1
            if n > 100000:
                raise RuntimeError("closure does not terminate")

    def apply(self, ev):
        self._do(tuple(ev))
        self._closure()
        for m in self.monitors:
            m(self)

    def _guard(self, f, *a):
        try:
            return f(*a)
        except Exception as e:   # Twisted would log this and drop the connection
            self.errors.append((type(e).__name__, str(e)[:120], "escaped"))

    def _do(self, ev):
        CTX.world = self
        CTX.client = "transit"
        k = ev[0]
        if k == "api":
            who = ev[1]
            self.called[who] = True
            t = self.S if who == "S" else self.R
            d = t.connect()
            d.addCallbacks(lambda c, who=who: self.results.__setitem__(who, ("ok", c)),
                           lambda f, who=who: self.results.__setitem__(who, ("fail", type(f.value).__name__)))
        elif k == "turn":
            r = [r for r in self.reactors if r.name == ev[1]][0]
            self._guard(r.fire_one)
        elif k == "pull":
            t = self.net.links[ev[1]].ends[ev[2]].transport
            self._guard(t.producer.resumeProducing)
        elif k == "deliver":
            link = self.net.links[ev[1]]
            self._guard(deliver, link, ev[2], ev[3])
        elif k == "conn_ok":
            self._guard(establish, self.net, self.net.attempts[ev[1]])
        elif k == "conn_fail":
            self._guard(refuse, self.net, self.net.attempts[ev[1]])
        elif k == "stranger":
            i = ev[1]
            self.stranger_done[i] = True
            kind, target = self.stranger_specs[i]
            host, port = {"R-listener": (R_HOST, 46002), "S-listener": (S_HOST, 46001)}[target]
            role = "sender" if target == "R-listener" else "receiver"
            f = StrangerFactory(stranger_script(kind, role))
            c = self.rx.connectTCP(host, port, f)
            self._guard(establish, self.net, c)
            self.net.links[-1].tag = "stranger"
        elif k == "close":
            self._guard(close_end, self.net.links[ev[1]], ev[2])
        elif k == "lose":
            self.lose_left -= 1
            link = self.net.links[ev[1]]
            link.broken = True
            self._guard(close_end, link, ev[2], error.ConnectionLost())
        elif k == "timer":
            t = min(r.calls[0].getTime() - r.seconds() for r in self.reactors if r.calls)
            self.now += t
            for r in self.reactors:
                r.rightNow += t
            # fire exactly one due call (the earliest; ties resolved by reactor order)
            for r in self.reactors:
                if r.due():
                    self._guard(r.fire_one)
                    break
        else:
            raise ValueError(ev)

    # ------------------------------------------------------------ state
    def conns(self, who):
        """all transit.Connection protocol objects owned by party `who`"""
        owner = self.S if who == "S" else self.R
        out = []
        for link in self.net.links:
            for end in link.ends:
                p = unwrap(end.protocol)
                if isinstance(p, transit.Connection) and p.owner is owner:
                    out.append((link, end.side, p))
        return out

    def image(self):
        im = canon.Imager(opaque_types=(Net, SimReactor, TransitWorld), deny=canon.DENY_ATTRS | {"start", "_description"})
        links = []
        for link in self.net.links:
            ends = []
            for end in link.ends:
                t = end.transport
                pr = unwrap(end.protocol)
                ends.append((t.closed, t.disconnecting, t.reading_paused, type(pr).__name__,
                             im.img(vars(pr)) if isinstance(pr, transit.Connection) else
                             (getattr(pr, "got", None), getattr(pr, "buf", None),
                              getattr(pr, "token", None), getattr(pr, "peer", None) is not None)))
            links.append((tuple(b"".join(q) for q in link.queues), link.broken, tuple(ends)))
        atts = tuple((c.host, c.port, c.state) for c in self.net.attempts)
        timers = tuple(tuple((round(dc.getTime() - r.seconds(), 6), getattr(dc.func, "__qualname__", "?")) for dc in r.calls)
                       for r in self.reactors)
        lst = tuple(sorted((h, p, port.listening) for (h, p), port in self.net.listeners.items()))
        parties = []
        for t in (self.S, self.R):
            parties.append((im.img(t._winner), t._listener_d is not None and t._listener_d.called if hasattr(t, "_listener_d") else None))
        res = tuple((k, v[0], v[1] if v[0] == "fail" else "conn") if v else (k, None) for k, v in sorted(self.results.items()))
        return (tuple(links), atts, timers, lst, tuple(parties), res, tuple(sorted(self.called.items())),
                tuple(self.stranger_done), self.lose_left, round(self.now, 6), tuple(self.errors))

    def key(self):
        return canon.key_of((self.image(), tuple(self.enabled())))

    def violations(self):
        return list(self.viol)

    def final_violations(self):
        out = []
        for m in self.final_monitors:
            out.extend(m(self) or [])
        return out

    def flag(self, oracle, sig, msg):
        for v in self.viol:
            if v["oracle"] == oracle and v["sig"] == sig:
                return
        self.viol.append(dict(oracle=oracle, sig=sig, msg=msg))

    def outcome(self):
        def r(v):
            if v is None:
                return None
            if v[0] == "ok":
                link = [l for (l, s, p) in self.conns("S") + self.conns("R") if p is v[1]]
                return ("ok", link[0].idx if link else -1)
            return v
        return (r(self.results["S"]), r(self.results["R"]), round(self.now, 3), tuple(self.errors))


def unwrap(p):
    return getattr(p, "_wrappedProtocol", p)


def pump(w, prefer=None, limit=10000):
    """default schedule to quiescence (no faults): used by fixtures"""
    n = 0
    while n < limit:
        en = [e for e in w.enabled() if e[0] not in ("lose", "conn_fail", "timer", "stranger")]
        if not en:
            break
        w.apply(en[0])
        n += 1
    return n


def connected_pair(cfg=None, seed=0):
    """a TransitWorld driven to the point where both connect() calls have succeeded"""
    c = dict(r_listens=True, s_listens=False, relay=False, conn_fail=False)
    if cfg:
        c.update(cfg)
    w = TransitWorld(c, seed)
    pump(w)
    assert w.results["S"] and w.results["S"][0] == "ok", w.results
    assert w.results["R"] and w.results["R"][0] == "ok", w.results
    return w, w.results["S"][1], w.results["R"][1]
