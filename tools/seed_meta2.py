#!/usr/bin/env python3
"""tools/seed_meta2.py - writes meta.json for the second and third wave of independently produced changes
(seeded/agent2-*, seeded/agent3-*) from the table below."""
import json, os
ROOT = os.path.join(os.path.dirname(os.path.dirname(os.path.abspath(__file__))), "seeded")
ORIGIN = "independent sub-agent given only the property text (plus one-line descriptions of earlier changes to avoid, no /verif content) and a scratch worktree"
RAN = ("tools/seed_eval.sh in a fresh scratch worktree: patch applies; repository suite 438 passed with it; demo_test.py fails with it "
       "and passes without it; ./check <property> against the patched tree")
T = {
 # name: (property, needs, detected_by, first_pass, added)
 "agent2-C01-receive-early-before-key": ("C01",
   "input_code() with the nameplate chosen but the words not yet typed, the peer's PAKE and then its version / a data phase arriving before choose_words()",
   "C01 third-other-code-input, code-pairs with flow input: same-code sessions end scared / no verifier",
   "missed", "scenarios where a participant talks before the local words are entered (third-other-code-{set,input}); input-flow code pairs"),
 "agent2-C02-lossy-label-encoding": ("C02",
   "a genuine ciphertext re-labelled with a side or phase containing a non-ASCII character that reduces to the honest label when dropped",
   "C02 single-tamper / sched-*-tamper1: manipulated-accepted, authentic-versions, authentic-messages",
   "missed (label alphabet was ASCII only)", "non-ASCII label operations (insert U+00E9, fullwidth digit) on side and phase at every stream position"),
 "agent2-C03-seqobserver-backlog-pop": ("C03",
   "two or more records buffered in the receiving wormhole with no get_message() outstanding (slow reader or a released burst)",
   "C03 late-reader-3msgs-3gets and dev2 searches: prefix",
   "missed (every reader kept one get_message() outstanding; bursts of one)", "late reader: three sends, three later get_message() calls; delegate received() order"),
 "agent2-C04-stale-tmp-reuse": ("C04",
   "a file transfer cut after at least one data record, then a second complete transfer of the same name into the same directory",
   "C04 retry-after-cut: byte-exact (received file is longer than sent)",
   "missed (every fault run started from an empty directory)", "two-transfer histories: cut at every record boundary, then a clean transfer into the same directory"),
 "agent2-C05-tmp-from-raw-filename": ("C05",
   "offered filename with a path separator naming an existing directory, transfer accepted, connection cut before the rename",
   "C05 receive-destinations (cut variants): writes-elsewhere",
   "missed (no transfer was cut; the temporary file's location was never observed)", "cut mode of the fake pipe; snapshot diff taken after a cut transfer as well"),
 "agent2-C06-consumer-before-producer": ("C06",
   "records queued before the consumer is attached, the transport paused with more ciphertext waiting, and a consumer that resumes the producer from inside registerProducer",
   "C06 consumer-resume-during-register: exact-records (order)",
   "missed", "12 evaluations with an eager consumer and a transport that delivers synchronously on resume"),
 "agent2-C07-listener-stop-addcallback": ("C07",
   "connect() fails (deadline / no winner) while the listener is open; the listening port then stays open",
   "C07 direct-r-listens, both-listen-race, no-honest-path, ...: losers-closed/listener-open",
   "check crashed (DIVERGENCE: the now-unhandled Deferred failure is logged from Deferred.__del__, i.e. GC-timed, and entered the state key)",
   "GC-timed 'Unhandled error in Deferred' log events are filtered; violations on record are still printed when the harness errors"),
 "agent2-C08-wsclose-without-open-initial": ("C08",
   "connection lost, then a reconnection attempt whose WebSocket negotiation fails, with close() pending or not",
   "C08 *-hsfail scenarios: verdict ServerConnectionError",
   "missed (no failed negotiation on reconnect in the alphabet)", "hsfail event: onClose without onOpen on a reconnection attempt"),
 "agent2-C09-hsfail-reconnect-as-initial": ("C09",
   "one successful connection, a loss, then a reconnection attempt failing during WebSocket negotiation",
   "C09 *-hsfail: session-died",
   "missed (same gap as C08)", "hsfail event in C09 scenarios"),
 "agent2-C10-inbound-queue-newest-first": ("C10",
   "a loss + replacement while the Leader has two or more un-acked records: they reach the Follower's new connection while it is still selecting",
   "C10 one-way / write-while-down: in-order-exactly-once, delivered-eventually", "reported", ""),
 "agent2-C11-connection-made-before-kcm": ("C11",
   "the Leader holds un-acked records when the next generation's connection is selected: they are replayed ahead of the KCM",
   "C11 reconverge-with-unacked-records-*: leader-confirms/follower-dropped-leaders-selection",
   "missed (C11 scenarios carried no application data)", "scenarios with un-acked records and one loss; oracle on the follower dropping the connection the leader selected"),
 "agent2-C12-framer-prologue-newline": ("C12",
   "a TCP segment boundary one byte before the end of the prologue",
   "C12 l2-handshake-fragmentation: l2-fragmentation/split:prologue",
   "missed (fragmentation was explored for records, not for the prologue/handshake)", "every two-segment split of prologue and handshake, both roles"),
 "agent2-C13-empty-expected-subprotocols": ("C13",
   "dilate(expected_subprotocols=[]) and the peer opening a subchannel nobody listens for",
   "C13 unexpected-open-*: unexpected-subprotocol/held-pending", "reported", ""),
 "agent2-C14-mailbox-dedup-per-side": ("C14",
   "pake messages from two different foreign sides in one mailbox (a server that lets a third side post)",
   "C14 third-*-pair-uncrowded-dev2: internal-failure NoTransition@_order.py:got_message",
   "missed (the reference server never lets a third side post once two have opened)", "server variant without the two-side limit (crowd_limit=None)"),
 "agent2-C15-outbound-double-pause": ("C15",
   "a pull producer registered while the Outbound is paused (no connection, or back-pressured)",
   "C15 producer registration scenarios: all-resumed/pull-starved", "reported", ""),
 "agent2-C16-ping-timer-active": ("C16",
   "the peer silent for two expiries (monitor drops the connection), then the loss notification: AlreadyCalled aborts connector_connection_lost",
   "C16 silent-*: replace-silent/stuck-on-dead-connection",
   "missed (the exception is swallowed by a Deferred chain; nothing observed that no new generation started)",
   "oracle: a closed connection must not stay in use once all turns have run; deterministic tap for exceptions swallowed by Deferred chains"),
 "agent2-C17-signal-reconnect-forgets-connection": ("C17",
   "Leader, peer silent for two ping intervals, close() between _signal_reconnect() and connectionLost",
   "C17 pair-ping-timeout-close0-dev: close-completes",
   "missed (no timers in the stacked world)", "'time passes for client i' events (ntimer) in the stacked world; ping-timeout scenarios"),
 "agent2-C18-oneshot-sync-fire": ("C18",
   "get_verifier() outstanding, verifier and versions reported in one turn, get_versions() called before the eventual queue runs",
   "C18 deferred-gets3-turns / deferred-gets4-turns: get-order",
   "missed (get_*() calls were not interleaved with un-run eventual turns)", "get_*() steps between event and turn, firing-order monitor"),
 "agent2-C19-completion-parity": ("C19",
   "interactive completion of the third word of a three-word code", "C19 completions: completions set:3:2, producible", "reported", ""),
 "agent2-C20-relay-subhints-parse-hint": ("C20",
   "dilation connection-hints with a relay-v1 entry whose hints list has a non-object element or a nested relay",
   "C20 hint-lists: hint-raises AttributeError (dilation)", "reported", ""),
}
T3 = {}
try:
    from seed_meta3 import T3
except Exception:
    pass
T.update(T3)
try:
    from seed_meta4 import T4
    T.update(T4)
except Exception:
    pass
for name, (prop, needs, det, first, added) in T.items():
    d = os.path.join(ROOT, name)
    if not os.path.isdir(d):
        continue
    files = [l[6:].strip() for l in open(os.path.join(d, "patch.diff")) if l.startswith("+++ b/")]
    meta = dict(name=name, breaks_property=prop, files_changed=files, needs_to_manifest=needs, origin=ORIGIN, confirmed=RAN,
                detected_by=det, first_pass=first, added_to_the_checks=added)
    json.dump(meta, open(os.path.join(d, "meta.json"), "w"), indent=1, ensure_ascii=False)
print("wrote", len(T))
