#!/usr/bin/env python3
"""Regenerates MANIFEST.json from the table below (single source of truth)."""
import json, os
HERE = os.path.dirname(os.path.dirname(os.path.abspath(__file__)))
TECH = "explicit-state model checking of the implementation: replay-based BFS over real objects with canonical-state deduplication and deviation bounding"
ENUM = "bounded exhaustive enumeration of inputs / operation sequences over a stated alphabet, executed on the real code against a reference oracle"
CHECKS = {
 # id: (category, text, note, technique)
 "C03": ("model_checking", "Complete BFS (fine/coarse decomposition) and deviation-bounded search of two real wormholes against the real mailbox-server logic; prefix/equality oracle on every state and every quiescent state.", "bounds: <=3+2 messages, <=2 drops per side, <=2 reorders, <=2 duplicates; environment models in DESIGN.md section 3", TECH),
 "C08": ("model_checking", "close() issued at every reachable state of the composed client (all three code flows, both API styles, peer absent / same code / wrong code, server error and welcome-error replies, connection drops): exactly-once closed notification, verdict against a ghost first-cause ledger, server tables (claims, open mailbox sides, recorded moods) inspected at the moment of the notification.", "bounds: <=2 drops on the fine side, <=1 injected server error; verdict oracle is exact for matching codes and a permitted set for differing codes", TECH),
 "C09": ("model_checking", "Connection drops at every protocol step (in-flight commands and responses lost) for set/set, allocate/set and allocate/input flows; quiescent-state oracle requires every application event exactly once and all messages delivered; every server connection must start with bind.", "bounds: complete BFS with <=1 (thorough 2) drop on the fine side, deviation-bounded with <=2 (3) drops per side", TECH),
 "C18": ("model_checking", "Event-order monitor (code <= key <= verifier <= versions/messages <= closed, once each, verifier before data, versions before messages on an order-preserving server) on every state of BFS / deviation-bounded explorations with close(), drops, reordering, duplication, explored eventual-queue turns, and explicit get_*() calls issued before and after the events and after closed.", "bounds as in the evidence file; get_*() timing explored for <=3 calls per thread", TECH),
 "C14": ("model_checking", "Composed client (13 machines) explored under the widest conformant-server environment: all code flows and API styles, reordered/duplicated delivery, injected error replies, welcome error/motd, a scripted third participant (polite, PAKE-less, other-password, malformed PAKE), drops and initial connection failure; any escaped exception, log.err or undocumented close verdict is a violation; reached Automat (machine,state,input) pairs are reported against those declared.", "legal use = no code-entry call after the application called close() or was told the wormhole is over; dilation not enabled in these scenarios", TECH),
 "C01": ("model_checking", "All ordered pairs over 13 code spellings (one character, case, word added/removed, trailing hyphen, NFC vs NFD, NFC-equal and NFC-distinct look-alikes, nameplates) x appid variants (incl. a merged-namespace server so different appids meet) x set_code/input_code, run on the real SPAKE2/HKDF/SecretBox; derive_key over 6 purposes x 4 lengths; plus complete BFS of delivery/API schedules for representative pairs including the peer's PAKE arriving before the local code.", "code and purpose alphabets are finite samples of an infinite domain; schedules complete for the stated scripts", TECH),
 "C02": ("model_checking", "Every single tamper operation (bit flip at every body offset, truncate, extend, phase re-label, side rename/reflection, cross-phase replay, random and PAKE injection, drop, duplicate) at every position of both server->client message streams, plus BFS / deviation-bounded search with tamper operations as explored events (pairs of operations, all interleavings); ghost ledger of what honest parties encrypted is the oracle; derive_phase_key injectivity over a concatenation-ambiguity alphabet.", "adversary = server or third participant without the code; quick flips one bit per byte, thorough all eight", TECH),
 "C20": ("exploration", "Exhaustive enumeration of a hint-list grammar (valid direct/tor/relay hints, every single-field and pairwise mutation over 19 values, relay sub-hint mutations and non-object sub-hints, all priority type pairs, odd hostnames; ~2.3k lists) fed to TransitSender/TransitReceiver.add_connection_hints+connect() and to a CONNECTING dilation Manager on a simulated reactor; oracle: no exception, connect() not aborted, dial set within the reference set of valid targets, the valid neighbour hint still dialled; plus encode/parse and produce/consume round trips.", "no Tor manager; JSON booleans in `port` are don't-care; top-level entries are JSON objects as the property states", ENUM),
 "C19": ("model_checking", "choose_words decided by enumeration of the random bytes (bijection per position, independence, exact reads); allocation through the real Allocator/Code against the real server; malformed/well-formed code alphabet; word completions for every prefix of every list word at positions 0-2 against a reference comprehension; all 1-3 call sequences of the code-entry API; and a BFS in which every input-helper call sequence (<=3, thorough 4) is interleaved with the server's nameplates/claimed replies and compared step by step with a reference model of the helper.", "exotic whitespace / non-ASCII digits in nameplates and the readline thread are outside the stated alphabet", TECH),
 "C05": ("exploration", "Exhaustive enumeration of offered file/directory names (all <=2, thorough <=3, component sequences over 9 components incl. '', '.', '..', '~', leading/trailing '/') x --output-file variants x pre-existing destination kinds x accept modes, plus zip member-name lists, each driven through the real Receiver._parse_offer/_handle_*/_write_* in a fresh tmpfs sandbox; oracle = diff of complete before/after filesystem snapshots (path, type, content, mode) against the documented destination.", "transit leg replaced by a fake record pipe; POSIX tmpfs", ENUM),
}
NA = {}
props = [json.loads(l)["id"] for l in open(os.path.join(HERE, "properties.jsonl"))]
checks = []
for pid in props:
    if pid in CHECKS:
        cat, text, note, tech = CHECKS[pid]
        checks.append({"property_id": pid, "quick_cmd": "./check %s --tier quick" % pid,
                       "thorough_cmd": "./check %s --tier thorough" % pid,
                       "evidence_file": "evidence/%s.json" % pid,
                       "replay_cmd_template": "./check %s --replay {path}" % pid,
                       "engine": "mc",
                       "level_claimed": {"category": cat, "text": text, "design_ref": "DESIGN.md section 4, %s" % pid},
                       "level_note": note, "technique": tech})
na = [{"property_id": p, "reason": NA.get(p, "check not built yet in this revision (planned, see DESIGN.md section 8)")}
      for p in props if p not in CHECKS]
m = {"version": 1,
     "setup_cmd": "./setup.sh",
     "hooks": {"guard": "MAGIC_WORMHOLE_VERIF",
               "enable": "no source hooks exist; checks import /repo/src directly (PYTHONPATH) so the working tree is what is explored",
               "baseline_off_cmd": "cd /repo && /venv/bin/python -m pytest -ra -q -p no:cacheprovider --timeout=900 --continue-on-collection-errors",
               "source_commits": [], "add_only": True},
     "engines": [{"name": "mc", "path": "mc/", "serves_properties": sorted(CHECKS),
                  "kind_free_text": "hand-written explicit-state explorer for Python/Twisted objects (replay-based BFS, deviation bounding, path-merging for stream chunkings)"}],
     "checks": checks, "not_applicable": na,
     "notes": "Known genuine defects are listed in known_findings.json; see DESIGN.md."}
json.dump(m, open(os.path.join(HERE, "MANIFEST.json"), "w"), indent=1)
print("checks:", len(checks), "not_applicable:", len(na))
