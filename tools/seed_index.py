#!/usr/bin/env python3
"""tools/seed_index.py - regenerates the wave-2 / wave-3 tables of seeded/INDEX.md from the meta.json files"""
import json, os, re
ROOT = os.path.join(os.path.dirname(os.path.dirname(os.path.abspath(__file__))), "seeded")
idx = open(os.path.join(ROOT, "INDEX.md")).read()
idx = re.sub(r"<!-- waves23 -->.*<!-- /waves23 -->\n", "", idx, flags=re.S)
out = ["<!-- waves23 -->"]
for wave, title, logs in (("agent2-", "Second wave", "eval2-first-pass.log, eval2-final.log"), ("agent3-", "Third wave", "eval3-first-pass.log, eval3-final.log"),
                          ("agent4-", "Fourth wave", "eval4-first-pass.log, eval4-final.log"),
                          ("agent5-", "Fifth wave", "eval5-first-pass.log, eval5-final.log"),
                          ("agent6-", "Sixth wave", "eval6-first-pass.log, eval6-final.log")):
    rows = []
    fp = 0
    for d in sorted(os.listdir(ROOT)):
        if d.startswith(wave):
            m = json.load(open(os.path.join(ROOT, d, "meta.json")))
            rep = m["first_pass"].startswith("reported")
            fp += rep
            det = m["detected_by"] + ("" if rep else "<br>_first pass: %s -> %s_" % (m["first_pass"], m["added_to_the_checks"]))
            rows.append("| `%s` | %s | %s | %s | %s |" % (d, m["breaks_property"], ", ".join(m["files_changed"]), m["needs_to_manifest"], det))
    out.append("## %s of independently produced changes (same procedure; each agent was also told, in one line each, which "
               "mechanisms had been used before so as to pick another)\n" % title)
    final = len(rows) - (1 if wave == "agent4-" else 0)
    out.append("First pass: %d of %d reported by the checks as they stood; %d of %d after the strengthening noted per row (%s).%s\n" % (
        fp, len(rows), final, len(rows), logs,
        "  The first-pass log of this wave was recorded while strengthening was already under way: rows marked 'missed' were found missed "
        "(by running the then-current check with tools/mut.sh, or by reading the patch against the scenario list) before the addition."
        if wave == "agent2-" else ("  (C17's first-pass run was killed by accident and repeated by hand: missed.)" if wave == "agent3-" else
        ("  (agent4-C03 is the exception: it was observable only through a defect of the unchanged code that the new scenario exposed and that is now fixed.)"
         if wave == "agent4-" else
         "  Waves five and six were produced and evaluated in one session; a change counts as 'reported' on the first pass only if the check as it stood "
         "before the agent's summary was read reports it."))))
    out.append("| name | property | file | needs, to manifest | reported by |\n|---|---|---|---|---|")
    out.extend(rows)
    out.append("")
out.append("<!-- /waves23 -->\n")
block = "\n".join(out)
marker = "## Hand-made mutation targets"
idx = idx.replace(marker, block + marker, 1)
open(os.path.join(ROOT, "INDEX.md"), "w").write(idx)
print("ok")
