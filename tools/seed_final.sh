#!/bin/sh
# tools/seed_final.sh <prefix> : run each seeded/<prefix>* change against its property's check (scratch worktree per change) and print,
# per change, the scenarios / enumerations that reported and the first violation lines.  Used for seeded/eval*-final.log.
cd "$(dirname "$0")/.."
for d in seeded/$1*; do
  [ -f "$d/patch.diff" ] || continue
  name=$(basename "$d"); prop=$(echo "$name" | sed 's/^[a-z0-9]*-\(C[0-9][0-9]\)-.*/\1/')
  wt="/tmp/finalwt.$$"; out="/tmp/finalout.$$"
  git -C /repo worktree add -q --detach "$wt" HEAD || exit 2
  git -C "$wt" apply "$(readlink -f $d/patch.diff)" || echo "PATCH DOES NOT APPLY"
  start=$(date +%s)
  res=$(VERIF_REPO="$wt" VERIF_OUT="$out" ./check $prop 2>&1); rc=$?
  end=$(date +%s)
  echo "== $name: check $prop rc=$rc $((end-start))s $(echo "$res" | grep -c '^VIOLATION') violation line(s)"
  echo "$res" | grep -E 'viol=[1-9]' | sed 's/ states=.*viol=/ viol=/' | cut -c1-160
  echo "$res" | grep -A1 '^VIOLATION' | grep 'oracle=' | head -2 | cut -c1-220
  git -C /repo worktree remove --force "$wt" >/dev/null 2>&1; rm -rf "$out"
done
