#!/bin/sh
# tools/seed_eval.sh <seed-dir> <name> <prop> [more props...]
# <seed-dir> contains patch.diff and demo_test.py.  Confirms in a fresh scratch worktree that (1) the patch applies,
# (2) the repository's test suite still passes with it, (3) the demonstration fails with it and passes without it,
# then runs the given checks against the patched tree.  Prints a summary; the worktree is removed afterwards.
set -u
src="$(readlink -f "$1")"; name="$2"; shift 2
wt="/tmp/seedwt.$$"; out="/tmp/seedout.$$"
git -C /repo worktree add -q --detach "$wt" HEAD || exit 2
trap 'git -C /repo worktree remove --force "$wt" >/dev/null 2>&1; rm -rf "$out"' EXIT
mkdir -p "$out.d"; cp "$src/demo_test.py" "$out.d/demo_test.py" 2>/dev/null
echo "== $name"
PYTHONPATH="$wt/src" /venv/bin/python -m pytest -q -p no:cacheprovider "$out.d/demo_test.py" >/tmp/seed_demo_clean.$$ 2>&1; d0=$?
if ! git -C "$wt" apply "$src/patch.diff"; then echo "patch does not apply"; exit 2; fi
( cd "$wt" && PYTHONPATH="$wt/src" /venv/bin/python -m pytest -q -p no:cacheprovider --timeout=900 -x 2>&1 | tail -1 ) > /tmp/seed_suite.$$
PYTHONPATH="$wt/src" /venv/bin/python -m pytest -q -p no:cacheprovider "$out.d/demo_test.py" >/tmp/seed_demo_patched.$$ 2>&1; d1=$?
echo "suite with patch: $(cat /tmp/seed_suite.$$)"
echo "demo without patch: rc=$d0 ($(tail -1 /tmp/seed_demo_clean.$$))"
echo "demo with patch:    rc=$d1 ($(tail -1 /tmp/seed_demo_patched.$$))"
cd "$(dirname "$0")/.."
for p in "$@"; do
  start=$(date +%s)
  res=$(VERIF_REPO="$wt" VERIF_OUT="$out" ./check $p 2>&1)
  rc=$?
  end=$(date +%s)
  echo "check $p: rc=$rc $((end-start))s $(echo "$res" | grep -c '^VIOLATION') violation line(s)"
  echo "$res" | grep -A1 '^VIOLATION' | grep 'oracle=' | head -3 | cut -c1-260
done
rm -rf /tmp/seed_suite.$$ /tmp/seed_demo_clean.$$ /tmp/seed_demo_patched.$$ "$out.d"
