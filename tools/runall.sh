#!/bin/sh
# tools/runall.sh [tier]  - run every registered check once, print one line per check
cd "$(dirname "$0")/.."
tier="${1:-quick}"
for p in C01 C02 C03 C04 C05 C06 C07 C08 C09 C10 C11 C12 C13 C14 C15 C16 C17 C18 C19 C20; do
  start=$(date +%s)
  out=$(./check $p --tier $tier 2>&1); rc=$?
  end=$(date +%s)
  echo "$p rc=$rc $((end-start))s $(echo "$out" | grep -c '^VIOLATION') violations $(echo "$out" | grep -c '^KNOWN-FINDING') known | $(echo "$out" | tail -1 | cut -c1-120)"
  echo "$out" | grep '^VIOLATION' | head -3
done
