#!/bin/sh
# tools/mut.sh <patch-or-sed-script> <prop> [check args...]
# Applies a patch in a scratch worktree of /repo and runs a check against it.
# usage: tools/mut.sh path/to/patch.diff C03 [--only xyz]
set -e
patch="$(readlink -f "$1")"; shift
wt="/tmp/mutwt.$$"
git -C /repo worktree add -q --detach "$wt" HEAD
trap 'git -C /repo worktree remove --force "$wt" >/dev/null 2>&1; rm -rf /tmp/mutout.$$' EXIT
git -C "$wt" apply "$patch"
cd "$(dirname "$0")/.."
set +e
VERIF_REPO="$wt" VERIF_OUT="/tmp/mutout.$$" ./check "$@" 2>&1 | tail -${MUT_TAIL:-8}
