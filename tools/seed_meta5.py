#!/usr/bin/env python3
"""tools/seed_meta5.py - writes meta.json for the fifth wave of independently produced changes (seeded/agent5-*) from the table below
(same fields as tools/seed_meta2.py)."""
import json, os
ROOT = os.path.join(os.path.dirname(os.path.dirname(os.path.abspath(__file__))), "seeded")
ORIGIN = "independent sub-agent given only the property text (plus one-line descriptions of earlier changes to avoid, no /verif content) and a scratch worktree"
RAN = ("tools/seed_eval.sh in a fresh scratch worktree: patch applies; repository suite 438 passed with it; demo_test.py fails with it "
       "and passes without it; ./check <property> against the patched tree")
T5 = {
 # name: (property, needs, detected_by, first_pass, added)
}
if __name__ == "__main__":
    for name, (prop, needs, det, fp, added) in T5.items():
        d = os.path.join(ROOT, name)
        files = [l[6:].strip() for l in open(os.path.join(d, "patch.diff")) if l.startswith("+++ b/")]
        meta = dict(name=name, breaks_property=prop, files_changed=files, needs_to_manifest=needs, origin=ORIGIN, confirmed=RAN,
                    detected_by=det, first_pass=fp, added_to_the_checks=added)
        json.dump(meta, open(os.path.join(d, "meta.json"), "w"), indent=1)
    print(len(T5), "meta files written")
