#!/usr/bin/env python3
"""tools/seed_meta5.py - writes meta.json for the fifth wave of independently produced changes (seeded/agent5-*) from the table below
(same fields as tools/seed_meta2.py)."""
import json, os
ROOT = os.path.join(os.path.dirname(os.path.dirname(os.path.abspath(__file__))), "seeded")
ORIGIN = "independent sub-agent given only the property text (plus one-line descriptions of earlier changes to avoid, no /verif content) and a scratch worktree"
RAN = ("tools/seed_eval.sh in a fresh scratch worktree: patch applies; repository suite 438 passed with it; demo_test.py fails with it "
       "and passes without it; ./check <property> against the patched tree")
T5 = {
 # name: (property, needs, detected_by, first_pass, added)
 "agent5-C01-input-path-not-normalised": ("C01",
   "a code with a canonically decomposable character typed through input_code() in NFD while the peer uses the NFC spelling",
   "C01 code-pairs (flow input) and sched-nfc-nfd: same-code-agree (missing verifier / versions)", "reported", ""),
 "agent5-C02-processed-bounded-deque": ("C02",
   "at least 32 further peer phases accepted after the peer's version, then an exact replay of that version message (any re-open of the mailbox replays it)",
   "C02 long-session-replay: authentic-versions (versions delivered twice after 32+2 messages)",
   "missed (sessions carried at most three messages, so nothing ever left a 32-entry window)",
   "long-session replay enumeration: honest sessions of N peer messages (N up to 130, thorough 300, around 16/32/64/128/256), then every stored message replayed exactly, one at a time"),
 "agent5-C03-flush-all-parked-phases": ("C03",
   "three or more messages one way, a phase two ahead of the cursor arriving first, then the cursor phase, while one in between is still missing (arrival 2,0,1)",
   "C03 bfs-0+3-fineA-reorder2 / bfs-0+4 / bfs-0+5: prefix (received [p0, p2])",
   "missed (quick scenarios had at most two messages one way under reordering)",
   "complete BFS of 3 / 4 / 5 messages one way with every stored message allowed to overtake the ones queued before it"),
 "agent5-C04-sparse-nul-records": ("C04", "a file whose last 16384-byte transit record is all NUL bytes",
   "C04 honest-transfers: byte-exact (file of size 1 = one NUL byte; cfile data+nul-byte, nul-record, ...)", "reported",
   "(found through the 1-byte file, which happens to be a NUL; a content alphabet - NUL runs across record boundaries, holes, 0xff, CRLF, archive magic - was added anyway)"),
 "agent5-C05-zip-dir-entries-unchecked": ("C05", "a directory offer whose zip has a directory entry with '..' components or an absolute name",
   "C05 receive-destinations (zip member lists): writes-elsewhere", "reported", ""),
 "agent5-C06-hung-up-at-connection-lost": ("C06",
   "a ciphertext flip, then further records handed over after loseConnection() and before connectionLost (a transport that lingers)",
   "C06 stream-manipulations (chunking split-linger): no-altered-record / reads-fail",
   "missed (every transport stopped delivering at loseConnection or at the exception)",
   "chunking split-linger: the frames after the manipulated one are delivered one by one after the connection was told to close"),
 "agent5-C07-check-and-remove-skips-leftover": ("C07",
   "one segment holding a complete correct handshake token followed by a wrong next token: 'ok' + a handshake under another key from a relay server",
   "C07 stranger-relay-vs-direct-{S,R}-dev, stranger-relay-only-*: key-holders-only (sender/receiver-selected-stranger)",
   "missed (strangers spoke only on direct connections; the relay was always honest)",
   "relay servers without the transit key (relay-hint-for-S/R): 'ok' followed by each stranger script, in one segment or cut at the line end, alone and racing the honest path"),
 "agent5-C09-echo-retires-prefix": ("C09",
   "two drops: after the first reconnect the replay of the client's own old messages reaches it before its re-submitted add reaches the server, then the second drop loses that add",
   "C09 set-set-dev2-drops2 / set-set-close0-drops2-dev3: eventually-complete (verifier / versions / msgs never arrive)", "reported", ""),
 "agent5-C10-closed-subchannel-purges-queue": ("C10",
   "a close from one side, the peer's answering CLOSE un-acked when the connection is lost, then the replacement connection",
   "C10 one-way-lose2-eitherend-dev ...: delivered-eventually/close", "reported", ""),
 "agent5-C11-framer-single-newline": ("C11", "a segment boundary exactly between the two trailing newlines of the inbound prologue",
   "C11 initial-*-edges-dev, reconverge-lose1-edges-dev: converge (deadlock CONNECTING/CONNECTING)",
   "missed (C11 delivered handshake bytes whole or per frame; byte-level cuts of the prologue were explored in C12 only, whose check does report this change)",
   "chunking frames+edges: a segment boundary one byte into and one byte before the end of every wire unit"),
 "agent5-C12-framer-consumed-offset": ("C12", "one read holding a complete frame followed by the beginning of the next frame, cut near that frame's end",
   "C12 l2-chunking (path-merged fragmentations): after-N", "reported", ""),
 "agent5-C13-closed-ignores-write": ("C13", "a write on a subchannel after the two-sided close has completed",
   "C13 *: write-after-close", "reported", ""),
 "agent5-C14-disconnected-forgets-ws": ("C14",
   "an API call that transmits while the server's WebSocket closing handshake is in progress, then the loss and the reconnection",
   "C14 solo-*-wsclosing, pair-*-wsclosing-dev2: internal-failure (NoTransition@ws_open, AssertionError@_tx); also C09 *-wsclosing-drop1-dev3: session-died",
   "missed (the closing-handshake window existed only in one C03 scenario)",
   "wsclosing event in C14 (three solo flows, two pair searches) and in C09 (three flows)"),
 "agent5-C15-resume-reentrancy-guard": ("C15",
   "inside one producer's turn the transport signals pauseProducing() and then, in the same turn, resumeProducing()",
   "C15 push-pause-resume-inside-turn, push-pull-pause-resume-inside-turn: all-resumed/push",
   "missed (only a pause could arrive inside a turn)",
   "armpr event: the next write fills and drains the transport's buffer, pause and resume both arrive inside that write"),
 "agent5-C16-max-unanswered-pings": ("C16", "the generation after a connection replaced for silence, or the third generation after two plain losses",
   "C16 responsive-lose1-I1 / blackhole-I1-dev: never-drop-responsive, monitor-lifecycle", "reported",
   "(a three-generation scenario, responsive-lose2-I1-dev, was added anyway)"),
 "agent5-C19-completions-lowercased-prefix": ("C19", "a typed prefix containing an upper-case letter during interactive word completion",
   "C19 input-word-completions: completions/input-extends",
   "missed (completions were enumerated on PGPWordList directly; the helper sequences used lower-case prefixes only)",
   "Input.get_word_completions on the real wordlist for ~4k prefixes in six letter-case variants against a case-sensitive reference"),
 "agent5-C20-bare-address-index": ("C20", "a hint whose hostname is the empty string",
   "C20 hint-lists: hint-aborted / hint-raises IndexError (transit and dilation)", "reported", ""),
 "agent5-C08-welcome-dedup": ("C08", "a connection loss after the first (friendly) welcome, then a reconnection whose welcome carries an error",
   "C08 solo-set/alloc-unwelcome-on-reconnect, pair-set-unwelcome-on-reconnect-dev: verdict (LonelyError instead of WelcomeError)",
   "missed (the welcome was the same on every connection of a scenario)", "welcome_later: the welcome of a reconnection differs from the first one; three C08 scenarios"),
 "agent5-C17-stop-pending-skips-called": ("C17", "close() while an outbound TCP connection attempt is in flight (scheduled, not yet answered)",
   "C17 pair-close0-dev ...: resources-freed/pending-attempt-at-closed",
   "missed (pending attempts were judged at quiescence only, and at quiescence every attempt has been answered: the late connection is refused by an exception and closed)",
   "invariant on every state: once closed was delivered the closed side owns no attempt in flight and no listener"),
 "agent5-C18-closing-error-stays-closing": ("C18", "an internal error reaching the Boss while it is closing, then the shutdown completing (delegate mode)",
   "C18 delegate-junk-response: once (closed twice)", "reported", ""),
}
if __name__ == "__main__":
    for name, (prop, needs, det, fp, added) in T5.items():
        d = os.path.join(ROOT, name)
        files = [l[6:].strip() for l in open(os.path.join(d, "patch.diff")) if l.startswith("+++ b/")]
        meta = dict(name=name, breaks_property=prop, files_changed=files, needs_to_manifest=needs, origin=ORIGIN, confirmed=RAN,
                    detected_by=det, first_pass=fp, added_to_the_checks=added)
        json.dump(meta, open(os.path.join(d, "meta.json"), "w"), indent=1)
    print(len(T5), "meta files written")
