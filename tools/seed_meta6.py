#!/usr/bin/env python3
"""tools/seed_meta6.py - writes meta.json for the sixth wave of independently produced changes (seeded/agent6-*)."""
import json, os
ROOT = os.path.join(os.path.dirname(os.path.dirname(os.path.abspath(__file__))), "seeded")
ORIGIN = "independent sub-agent given only the property text (plus one-line descriptions of earlier changes to avoid, no /verif content) and a scratch worktree"
RAN = ("tools/seed_eval.sh in a fresh scratch worktree: patch applies; repository suite 438 passed with it; demo_test.py fails with it "
       "and passes without it; ./check <property> against the patched tree")
PRE = "missed by the check as it stood (the addition was made after reading the agent's summary and before the evaluation run, which therefore already reports it)"
T6 = {
 "agent6-C01-nfc-only-with-combining-marks": ("C01", "the same code in two canonically equivalent spellings without any combining mark (KELVIN SIGN vs K, ANGSTROM SIGN, Hangul jamo)",
   "C01 code-pairs (KELVIN SIGN pair): same-code-agree", "reported", ""),
 "agent6-C02-inorder-shared-default-dict": ("C02", "the server delivers phase k+1 before phase k (a plaintext parked in the reorder buffer) while another wormhole of the process, or the dilate stream, reaches that number",
   "C02 single-tamper (drop / phase / side operations): authentic-messages (own plaintext delivered as the peer's)", "reported", ""),
 "agent6-C03-backlog-falsy-empty-message": ("C03", "an empty message b'' waiting in the backlog when get_message() is called late",
   "C03 late-reader-3msgs-3gets: prefix", PRE, "the late reader's second message is the empty message"),
 "agent6-C04-json-nfc-normalised": ("C04", "a text message or file name that is not NFC-normalised (decomposed accents, singletons, conjoining jamo)",
   "C04 text-messages / honest-transfers (unnormalised-names): text-exact, byte-exact", PRE, "five unnormalised texts and a tree with unnormalised names"),
 "agent6-C05-basename-nfkc": ("C05", "an offered name without ASCII '/' or '..' but with FULLWIDTH SOLIDUS / FULL STOP, ONE / TWO DOT LEADER",
   "C05 receive-destinations: writes-elsewhere, destination/announced, refuse-existing", PRE, "13 look-alike names in the name alphabet"),
 "agent6-C06-connectconsumer-extendleft": ("C06", "records already queued when writeToFile(expected=N) is called, at least two whole records behind the N bytes",
   "C06 body-then-records: exact-records/order", "missed (the consumer mode was always run to the end of the stream)",
   "body-then-records: k records as a file body, the rest through receive_record(), q records queued at attach"),
 "agent6-C07-listener-skipped-if-fired": ("C07", "the peer connects to the party's listener and finishes the handshake before the party's own connect() call",
   "C07 direct-r-listens / both-listen-race ...: same-link/winner-not-returned", "reported", ""),
 "agent6-C08-stop-defers-one-turn": ("C08", "close() while the first connection is in its WebSocket negotiation (TCP up, no answer yet)",
   "C08 solo-*-close-while-negotiating: verdict (ServerConnectionError instead of LonelyError)",
   "missed (connecting was one atomic event)", "tcpconn / negabort events: the first connection in two steps, stop in between"),
 "agent6-C09-disconnected-clears-ws": ("C09", "an outbound command during the WebSocket closing handshake, then the loss and the reconnection",
   "C09 *-wsclosing-drop1-dev3: session-died", "reported (by the wsclosing scenarios added for agent5-C14 earlier in the same session)", ""),
 "agent6-C10-watermark-only-if-acked": ("C10", "a record replayed on the replacement connection in one segment with the KCM, no further record on it, then a second loss",
   "C10 one-way-lose2-eitherend-dev ...: in-order-exactly-once (delivered twice)", "reported", ""),
 "agent6-C11-follower-hints-before-reconnecting": ("C11", "a loss in a network where only Leader-to-Follower attempts can complete (the Leader does not listen)",
   "C11 reconverge-lose1-*: converge (deadlock CONNECTING/CONNECTING)", "reported", ""),
 "agent6-C12-exact-multiple-noise-packets": ("C12", "a record whose encoding is an exact multiple (k >= 2) of 65519 bytes",
   "C12 l2-roundtrip: Data on the 2*65519 edge dropped", "reported", ""),
 "agent6-C13-fromkeys-shared-deque": ("C13", "two expected subprotocol names, an OPEN for one held, listen() for the other called first",
   "C13 two-names-held-listen-any-order-pq: subprotocol-name, open-once", PRE, "two declared names with held OPENs and listeners in either order (expected set unset / both names)"),
 "agent6-C14-input-s2-nameplates-to-s3": ("C14", "input_code() with a list request in flight, choose_nameplate() before its reply; replies arrive in request order",
   "C14 solo-input-* / pair-input-*: internal-failure (NoTransition@I_got_wordlist, AssertionError@_get_word_completions)", "reported", ""),
 "agent6-C15-unregister-one-set-only": ("C15", "inside one producer's resume turn another producer that has not yet had its turn is unregistered",
   "C15 push-unregister-other-inside-turn: no-exception AssertionError@_check_invariants, all-resumed/push",
   "missed (producers only unregistered themselves)", "producers whose application unregisters another producer during its own turn"),
 "agent6-C16-skip-ping-after-recent-pong": ("C16", "pongs arriving between half an interval and one interval after their ping",
   "C16 responsive-I1-quarters: never-drop-responsive",
   "missed (time advanced in half intervals: a pong came at once or exactly half an interval late)", "tick size generalised; quarter-interval scenarios"),
 "agent6-C17-loss-before-select-unreported": ("C17", "the winning connection lost in the eventual turn between its KCM and Connector.accept, close() later",
   "C17 pair-close0-nlose-turns-dev: close-completes (Manager STOPPING)",
   "missed (link loss and explored eventual turns were never combined; counted as missed although the evaluation run, started while the scenario was being added, reports it)",
   "nlose + turn explored together, closing either side"),
 "agent6-C18-error-fanout-one-waiter": ("C18", "two or more get_message() Deferreds outstanding when the wormhole closes",
   "C18 deferred-gets5-many-outstanding: get-hangs", "missed (at most one get_message() was outstanding at close)", "four early and two late get_message() calls against one message"),
 "agent6-C19-completions-cache-without-head": ("C19", "two completion requests with the same word position and partial word but different earlier words",
   "C19 word-completions / input-word-completions: completions set, extends", "reported", ""),
 "agent6-C20-only-one-iterates-live-set": ("C20", "a well-formed hint whose hostname cannot be IDNA-encoded (its connect fails synchronously)",
   "C20 hint-lists: hint-aborted RuntimeError", "reported", ""),
}
if __name__ == "__main__":
    for name, (prop, needs, det, fp, added) in T6.items():
        d = os.path.join(ROOT, name)
        files = [l[6:].strip() for l in open(os.path.join(d, "patch.diff")) if l.startswith("+++ b/")]
        meta = dict(name=name, breaks_property=prop, files_changed=files, needs_to_manifest=needs, origin=ORIGIN, confirmed=RAN,
                    detected_by=det, first_pass=fp, added_to_the_checks=added)
        json.dump(meta, open(os.path.join(d, "meta.json"), "w"), indent=1)
    print(len(T6), "meta files written")
