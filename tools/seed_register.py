#!/usr/bin/env python3
"""tools/seed_register.py <seed-dir> <name> <property> <caught-by> "<needs>" "<what-ran>"
Copies patch.diff / demo_test.py / NOTES.md into /verif/seeded/<name>/ and writes meta.json."""
import json, os, shutil, sys
src, name, prop, caught, needs, ran = sys.argv[1:7]
dst = os.path.join(os.path.dirname(os.path.dirname(os.path.abspath(__file__))), "seeded", name)
os.makedirs(dst, exist_ok=True)
for f in ("patch.diff", "demo_test.py", "NOTES.md"):
    if os.path.exists(os.path.join(src, f)):
        shutil.copy(os.path.join(src, f), os.path.join(dst, f))
files = [l[6:].strip() for l in open(os.path.join(dst, "patch.diff")) if l.startswith("+++ b/")]
meta = dict(name=name, breaks_property=prop, files_changed=files, needs_to_manifest=needs,
            origin="independent sub-agent given only the property text and a scratch worktree" if name.startswith("agent-") else "hand-made",
            confirmed=ran, detected_by=caught)
json.dump(meta, open(os.path.join(dst, "meta.json"), "w"), indent=1)
print("registered", dst)
