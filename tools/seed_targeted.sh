#!/bin/sh
# tools/seed_targeted.sh <seed-dir-name> <prop> [check args...] : run one check (optionally --only <scenario>) against one seeded change
# in a scratch worktree and print what reported.  Used for the eval*-final.log files of waves 5 and 6.
cd "$(dirname "$0")/.."
name="$1"; prop="$2"; shift 2
wt="/tmp/tgtwt.$$"; out="/tmp/tgtout.$$"
git -C /repo worktree add -q --detach "$wt" HEAD || exit 2
git -C "$wt" apply "$(readlink -f seeded/$name/patch.diff)" || echo "PATCH DOES NOT APPLY"
start=$(date +%s)
res=$(VERIF_REPO="$wt" VERIF_OUT="$out" timeout 900 ./check $prop "$@" 2>&1); rc=$?
end=$(date +%s)
echo "== $name: ./check $prop $* -> rc=$rc $((end-start))s $(echo "$res" | grep -c '^VIOLATION') violation line(s)"
echo "$res" | grep -E 'viol=[1-9]' | sed 's/ states=.* viol=/ viol=/' | cut -c1-150
echo "$res" | grep -A1 '^VIOLATION' | grep 'oracle=' | head -2 | cut -c1-230
git -C /repo worktree remove --force "$wt" >/dev/null 2>&1; rm -rf "$out"
